(* Bitmap.v — executable model of src/varintBitmap.{c,h} (Roaring-style set of
   uint16_t), function by function, as the code stands after the `fix:` commits
   for F24 (AddRange) and F14 (Decode).  No proofs here (BitmapLemmas.v,
   BitmapProofs*.v).

   State.  `bm_card` is the C field `cardinality` and is maintained exactly where
   the C maintains it.  The container is
     CArray rvals cap : rvals = values[cardinality-1], ..., values[1], values[0]: the
                       live slots of container.array.values, LAST slot first (the C
                       never reads a slot at or beyond `cardinality`; those slots are
                       not modelled).  Held in this order so that the cost profile of
                       the model matches memmove: appending at the end is O(1),
                       inserting at index i rebuilds cardinality - i cells.
                       cap = container.array.capacity;
     CBits bits      : the 8192 bytes of container.bitmap.bits, as a finite map
                       from byte index to byte (absent = 0, as calloc leaves it);
     CRuns runs cap  : runs = the numRuns (start,length) pairs, cap = runs.capacity.
   Allocation failure is outside C08/C14 (C18); every malloc/calloc/realloc is
   taken to succeed, the sites are listed in the report.  The decoder records the
   sizes it asks for. *)
Require Import VV.Base.
From Coq Require Import FMapPositive.
Local Open Scope N_scope.

(* ------------------------------------------------------------------ *)
(* N-indexed list helpers: indices are C uint32_t values, never nat    *)

(* The primitives below are the memory model of a C array held as a list: read
   a[i], write a[i], memmove up/down by one slot.  They recurse on the binary
   digits of the index (no arithmetic per element); BitmapLemmas.v relates them
   to nth / firstn / skipn at N.to_nat i. *)

(* drop p elements *)
Fixpoint dropP {A : Type} (p : positive) (l : list A) : list A :=
  match p with
  | xH => tl l
  | xO q => dropP q (dropP q l)
  | xI q => tl (dropP q (dropP q l))
  end.
Definition skipnN {A : Type} (n : N) (l : list A) : list A :=
  match n with N0 => l | Npos p => dropP p l end.

(* first p elements of l, followed by k applied to the rest *)
Definition take1 {A : Type} (l : list A) (k : list A -> list A) : list A :=
  match l with x :: t => x :: k t | [] => k [] end.
Fixpoint takeP {A : Type} (p : positive) (l : list A) (k : list A -> list A) : list A :=
  match p with
  | xH => take1 l k
  | xO q => takeP q l (fun r => takeP q r k)
  | xI q => takeP q l (fun r => takeP q r (fun r2 => take1 r2 k))
  end.
Definition takeN {A : Type} (n : N) (l : list A) (k : list A -> list A) : list A :=
  match n with N0 => k l | Npos p => takeP p l k end.

Definition nthN (l : list N) (i : N) : N := hd 0 (skipnN i l).

Definition firstnN {A : Type} (n : N) (l : list A) : list A := takeN n l (fun _ => []).

(* a[i] = f a[i]  (nothing when i is out of range) *)
Definition updN (l : list N) (i : N) (f : N -> N) : list N :=
  takeN i l (fun r => match r with x :: t => f x :: t | [] => [] end).

(* insert v after the first i cells *)
Definition insertN (l : list N) (i v : N) : list N := takeN i l (fun r => v :: r).

(* delete the cell after the first i cells *)
Definition removeN (l : list N) (i : N) : list N := takeN i l (fun r => tl r).

Definition lenN {A : Type} (l : list A) : N := N.of_nat (length l).

(* for (i = lo; i < lo + n; i++) s = body i s *)
Definition for_loop {S : Type} (lo n : N) (body : N -> S -> S) (s : S) : S :=
  snd (N.iter n (fun p => (fst p + 1, body (fst p) (snd p))) (lo, s)).

Definition nseqN (lo n : N) : list N := rev_append (for_loop lo n (fun i acc => i :: acc) []) [].

(* byte-addressed memory block: finite map index -> byte, absent = 0 *)
Definition mem8 := PositiveMap.t N.
Definition mzero : mem8 := PositiveMap.empty N.
Definition mget (m : mem8) (i : N) : N :=
  match PositiveMap.find (N.succ_pos i) m with Some b => b | None => 0 end.
Definition mset (m : mem8) (i b : N) : mem8 := PositiveMap.add (N.succ_pos i) b m.
(* memcpy(m, bytes, length bytes) *)
Definition mem_of_bytes (bytes : list N) : mem8 :=
  snd (fold_left (fun st b => (fst st + 1, mset (snd st) (fst st) b)) bytes (0, mzero)).
(* the byte indices 0 .. 8191 of a bitmap container *)
Definition byte_idx : list N := nseqN 0 8192.

Definition replN {A : Type} (n : N) (x : A) : list A := N.iter n (cons x) [].

(* ------------------------------------------------------------------ *)
(* constants of varintBitmap.h (checked against the header in BitmapLemmas.v) *)

Definition BM_ARRAY : N := 0.
Definition BM_BITMAP : N := 1.
Definition BM_RUNS : N := 2.

Definition to_s32 (x : N) : Z :=
  if x <? 2147483648 then Z.of_N x else (Z.of_N x - 4294967296)%Z.
(* uint32_t wrap-around, with the no-wrap case decided by one comparison
   (u32' x = u32 x, u16' x = u16 x, sub32 x y = (x - y) mod 2^32 in uint32_t) *)
Definition u32' (x : N) : N := if x <? 4294967296 then x else x mod 4294967296.
Definition u16' (x : N) : N := if x <? 65536 then x else x mod 65536.
Definition sub32 (x y : N) : N :=
  if (y <=? x) && (x <? 4294967296) then x - y
  else (x + 4294967296 - y mod 4294967296) mod 4294967296.

Inductive container :=
| CArray (rvals : list N) (cap : N)
| CBits (bits : mem8)
| CRuns (runs : list (N * N)) (cap : N).

Record bitmap := mkBM { bm_card : N; bm_c : container }.

(* ------------------------------------------------------------------ *)
(* internal helpers                                                     *)

(* binarySearch_: index if found, else -(insertion point + 1).  int32_t
   arithmetic; the loop halves high-low, 40 rounds exceed any 32-bit span
   (out of fuel is a value no caller can mistake for a result).
   The array is handed over last-slot-first: `ah` is values[high], values[high-1],
   ..., values[0] and `am` the same from values[mid] on, so that array[mid] is the
   head of `am`. *)
Fixpoint bsearch_loop (fuel : nat) (ah : list N) (low high : Z) (v : N) : Z :=
  match fuel with
  | O => (-1099511627776)%Z
  | S f =>
      if (low <=? high)%Z then
        let mid := Z.quot2 (low + high) in
        let am := skipnN (Z.to_N (high - mid)) ah in
        let midVal := hd 0 am in
        if midVal <? v then bsearch_loop f ah (mid + 1)%Z high v
        else if v <? midVal then bsearch_loop f (tl am) low (mid - 1)%Z v
        else mid
      else (- (low + 1))%Z
  end.

(* binarySearch_(values, length, value) with rvals = values[length-1], ..., values[0] *)
Definition binary_search (rvals : list N) (length v : N) : Z :=
  if length =? 0 then (-1)%Z
  else bsearch_loop 40 rvals 0%Z (to_s32 (sub32 length 1)) v.

(* values[0], values[1], ... in index order *)
Definition arr_values (rvals : list N) : list N := rev_append rvals [].
Definition arr_of_values (vals : list N) : list N := rev_append vals [].

(* __builtin_popcount of one byte *)
Fixpoint popc (k : nat) (b : N) : N :=
  match k with
  | O => 0
  | S k' => N.b2n (N.odd b) + popc k' (N.div2 b)
  end.
Definition popcount8 (b : N) : N := popc 8 b.

(* bitmapCardinality_ *)
Definition bitmap_cardinality (bits : mem8) : N :=
  u32' (fold_left (fun c i => c + popcount8 (mget bits i)) byte_idx 0).

(* bitmapContains_ *)
Definition bits_contains (bits : mem8) (v : N) : bool :=
  let byteIdx := v / 8 in
  let bitIdx := v mod 8 in
  negb (N.land (mget bits byteIdx) (2 ^ bitIdx) =? 0).

(* bitmapSet_ : (bits, changed) *)
Definition bits_set (bits : mem8) (v : N) : mem8 * bool :=
  let byteIdx := v / 8 in
  let mask := 2 ^ (v mod 8) in
  let b := mget bits byteIdx in
  let wasSet := negb (N.land b mask =? 0) in
  (mset bits byteIdx (N.lor b mask), negb wasSet).

(* bitmapClear_ : (bits, changed) *)
Definition bits_clear (bits : mem8) (v : N) : mem8 * bool :=
  let byteIdx := v / 8 in
  let mask := 2 ^ (v mod 8) in
  let b := mget bits byteIdx in
  let wasSet := negb (N.land b mask =? 0) in
  (mset bits byteIdx (N.ldiff b mask), wasSet).

Definition zero_bits : mem8 := mzero.

(* the scan `for (i = 0; i < 65536; i++) if (bitmapContains_(bits, i)) emit i`,
   byte by byte: bit k of byte j is value 8 j + k *)
Fixpoint byte_vals (k : nat) (base b : N) : list N :=
  match k with
  | O => []
  | S k' => (if N.odd b then [base] else []) ++ byte_vals k' (N.succ base) (N.div2 b)
  end.
Definition bits_values (bits : mem8) : list N :=
  flat_map (fun j => match mget bits j with N0 => [] | b => byte_vals 8 (j * 8) b end) byte_idx.

(* arrayToBitmap_: calloc + bitmapSet_ of values[0..cardinality) *)
Definition set_all (bits : mem8) (vs : list N) : mem8 :=
  fold_left (fun b v => fst (bits_set b v)) vs bits.
Definition array_to_bits (rvals : list N) : mem8 :=
  set_all zero_bits (arr_values rvals).

(* the values of one run: (uint16_t)(start + j), j = 0 .. length-1 *)
Definition run_vals (r : N * N) : list N :=
  map (fun j => u16' (fst r + j)) (nseqN 0 (snd r)).
(* runs -> array: values[pos++] = start + j *)
Definition runs_values (runs : list (N * N)) : list N := flat_map run_vals runs.
(* runs -> bitmap: calloc + bitmapSet_(bits, start + j) *)
Definition runs_to_bits (runs : list (N * N)) : mem8 :=
  fold_left (fun b r => set_all b (run_vals r)) runs zero_bits.

(* arrayEnsureCapacity_: the new capacity *)
Definition ensure_capacity (cap needed : N) : N :=
  if needed <=? cap then cap
  else
    let newCapacity := u32' (cap * 2) in
    if newCapacity <? needed then needed else newCapacity.

(* ------------------------------------------------------------------ *)
(* core API                                                             *)

(* varintBitmapCreate *)
Definition bm_create : bitmap := mkBM 0 (CArray [] 16).

(* varintBitmapClone: same type, cardinality, capacity and live data *)
Definition bm_clone (s : bitmap) : bitmap :=
  match bm_c s with
  | CArray rvals cap => mkBM (bm_card s) (CArray rvals cap)
  | CBits bits => mkBM (bm_card s) (CBits bits)
  | CRuns runs cap => mkBM (bm_card s) (CRuns runs cap)
  end.

(* varintBitmapAdd, ARRAY case *)
Definition add_array (card : N) (rvals : list N) (cap v : N) : bitmap * bool :=
  let idx := binary_search rvals card v in
  if (0 <=? idx)%Z then (mkBM card (CArray rvals cap), false)
  else if 4096 <=? card then
    let bits := array_to_bits rvals in
    (mkBM (u32' (card + 1)) (CBits (fst (bits_set bits v))), true)
  else
    let insertPos := Z.to_N (- (idx + 1)) in
    let cap' := ensure_capacity cap (u32' (card + 1)) in
    (* slot insertPos counted from the front = card - insertPos cells from the back *)
    (mkBM (u32' (card + 1)) (CArray (insertN rvals (card - insertPos) v) cap'), true).

(* varintBitmapAdd, BITMAP case *)
Definition add_bits (card : N) (bits : mem8) (v : N) : bitmap * bool :=
  let r := bits_set bits v in
  if snd r then (mkBM (u32' (card + 1)) (CBits (fst r)), true)
  else (mkBM card (CBits (fst r)), false).

(* varintBitmapAdd *)
Definition bm_add (s : bitmap) (v : N) : bitmap * bool :=
  match bm_c s with
  | CArray rvals cap => add_array (bm_card s) rvals cap v
  | CBits bits => add_bits (bm_card s) bits v
  | CRuns runs _ =>
      if 4096 <=? bm_card s then add_bits (bm_card s) (runs_to_bits runs) v
      else add_array (bm_card s) (arr_of_values (runs_values runs)) (u32' (bm_card s + 1)) v
  end.

(* varintBitmapRemove, ARRAY case *)
Definition remove_array (card : N) (rvals : list N) (cap v : N) : bitmap * bool :=
  let idx := binary_search rvals card v in
  if (idx <? 0)%Z then (mkBM card (CArray rvals cap), false)
  else (mkBM (sub32 card 1) (CArray (removeN rvals (card - 1 - Z.to_N idx)) cap), true).

(* varintBitmapRemove, BITMAP case (bitmapToArray_ below 4096) *)
Definition remove_bits (card : N) (bits : mem8) (v : N) : bitmap * bool :=
  let r := bits_clear bits v in
  if snd r then
    let card' := sub32 card 1 in
    if card' <? 4096 then (mkBM card' (CArray (arr_of_values (bits_values (fst r))) card'), true)
    else (mkBM card' (CBits (fst r)), true)
  else (mkBM card (CBits (fst r)), false).

(* varintBitmapRemove *)
Definition bm_remove (s : bitmap) (v : N) : bitmap * bool :=
  match bm_c s with
  | CArray rvals cap => remove_array (bm_card s) rvals cap v
  | CBits bits => remove_bits (bm_card s) bits v
  | CRuns runs _ =>
      if 4096 <=? bm_card s then remove_bits (bm_card s) (runs_to_bits runs) v
      else remove_array (bm_card s) (arr_of_values (runs_values runs)) (bm_card s) v
  end.

(* varintBitmapContains, RUNS case *)
Fixpoint runs_contains (runs : list (N * N)) (v : N) : bool :=
  match runs with
  | [] => false
  | (start, len) :: t =>
      if (start <=? v) && (v <? start + len) then true
      else if v <? start then false
      else runs_contains t v
  end.

(* varintBitmapContains *)
Definition bm_contains (s : bitmap) (v : N) : bool :=
  match bm_c s with
  | CArray rvals _ => (0 <=? binary_search rvals (bm_card s) v)%Z
  | CBits bits => bits_contains bits v
  | CRuns runs _ => runs_contains runs v
  end.

Definition bm_cardinality (s : bitmap) : N := bm_card s.
Definition bm_is_empty (s : bitmap) : bool := bm_card s =? 0.
Definition bm_optimize (s : bitmap) : bitmap := s.

(* varintBitmapClear *)
Definition bm_clear (s : bitmap) : bitmap :=
  match bm_c s with
  | CArray _ cap => mkBM 0 (CArray [] cap)
  | CBits _ => mkBM 0 (CBits zero_bits)
  | CRuns _ cap => mkBM 0 (CRuns [] cap)
  end.

(* varintBitmapSizeBytes (sizeof(varintBitmap) = 24) *)
Definition bm_size_bytes (s : bitmap) : N :=
  match bm_c s with
  | CArray _ cap => 24 + cap * 2
  | CBits _ => 24 + 8192
  | CRuns _ cap => 24 + cap * 2 * 2
  end.

Definition bm_type (s : bitmap) : N :=
  match bm_c s with CArray _ _ => BM_ARRAY | CBits _ => BM_BITMAP | CRuns _ _ => BM_RUNS end.

(* varintBitmapGetStats: (sizeBytes, type, cardinality, containerCapacity) *)
Definition bm_get_stats (s : bitmap) : N * N * N * N :=
  (bm_size_bytes s, bm_type s, bm_card s,
   match bm_c s with CArray _ cap => cap | CBits _ => 8192 * 8 | CRuns _ cap => cap end).

(* ------------------------------------------------------------------ *)
(* iteration                                                            *)

(* the sequence of currentValue produced by
     it = CreateIterator(vb); while (IteratorNext(&it)) ...
   (proved equal to repeated iter_next in BitmapProofsIter.v) *)
Definition iter_all (s : bitmap) : list N :=
  match bm_c s with
  | CArray rvals _ => arr_values rvals
  | CBits bits => bits_values bits
  | CRuns runs _ => runs_values runs
  end.

(* varintBitmapIterator: position, currentValue, hasValue *)
Record iter := mkIt { it_pos : N; it_cur : N; it_has : bool }.
Definition iter_init : iter := mkIt 0 0 false.

(* the BITMAP loop of IteratorNext: first position >= 8*j0 + from whose bit is
   set, scanning the bytes with indices `idxs` (= j0, j0+1, .. 8191); 65536 when
   there is none *)
Fixpoint first_bit (k : nat) (b from i : N) : option N :=
  match k with
  | O => None
  | S k' => if (from <=? i) && N.odd b then Some i else first_bit k' (N.div2 b) from (N.succ i)
  end.
Fixpoint scan_bits (bits : mem8) (idxs : list N) (from : N) : N :=
  match idxs with
  | [] => 65536
  | j :: t => match first_bit 8 (mget bits j) from 0 with
              | Some k => j * 8 + k
              | None => scan_bits bits t 0
              end
  end.

(* RUNS case of IteratorNext on the runs from runIdx on *)
Fixpoint runs_next (rest : list (N * N)) (runIdx off : N) : option (N * N) :=
  match rest with
  | [] => None
  | (start, len) :: t =>
      if off <? len then Some (u32' (runIdx * 65536 + off + 1), u16' (start + off))
      else runs_next t (runIdx + 1) 0
  end.

(* varintBitmapIteratorNext : (iterator, returned flag) *)
Definition iter_next (s : bitmap) (it : iter) : iter * bool :=
  match bm_c s with
  | CArray rvals _ =>
      if it_pos it <? bm_card s
      then (mkIt (it_pos it + 1) (nthN rvals (bm_card s - 1 - it_pos it)) true, true)
      else (mkIt (it_pos it) (it_cur it) false, false)
  | CBits bits =>
      let p := it_pos it in
      let q := if p <? 65536 then scan_bits bits (skipnN (p / 8) byte_idx) (p mod 8) else p in
      if q <? 65536 then (mkIt (q + 1) q true, true)
      else (mkIt q (it_cur it) false, false)
  | CRuns runs _ =>
      (* position / 65536 and position % 65536, by shift and mask *)
      let runIdx := N.shiftr (it_pos it) 16 in
      let off := N.land (it_pos it) 65535 in
      match runs_next (skipnN runIdx runs) runIdx off with
      | Some (p, v) => (mkIt p v true, true)
      | None =>
          (* the position reached when the runs are exhausted *)
          let p := if runIdx <? lenN runs then u32' (lenN runs * 65536) else it_pos it in
          (mkIt p (it_cur it) false, false)
      end
  end.

(* ToArray-style loop run with explicit fuel (used to state the iterator theorem) *)
Fixpoint iter_run (fuel : nat) (s : bitmap) (it : iter) : list N :=
  match fuel with
  | O => []
  | S f => let r := iter_next s it in
           if snd r then it_cur (fst r) :: iter_run f s (fst r) else []
  end.

(* varintBitmapToArray: the values written to output[0..count) *)
Definition bm_to_array (s : bitmap) : list N := iter_all s.

(* varintBitmapAddMany *)
Definition bm_add_many (s : bitmap) (vs : list N) : bitmap :=
  fold_left (fun r v => fst (bm_add r v)) vs s.

(* ------------------------------------------------------------------ *)
(* set operations (operands are const; results are fresh)               *)

(* the two-pointer loop of varintBitmapAnd on two arrays *)
Fixpoint and_arrays (l1 : list N) : list N -> bitmap -> bitmap :=
  fix go (l2 : list N) (r : bitmap) : bitmap :=
    match l1, l2 with
    | v1 :: t1, v2 :: t2 =>
        if v1 =? v2 then and_arrays t1 t2 (fst (bm_add r v1))
        else if v1 <? v2 then and_arrays t1 l2 r
        else go t2 r
    | _, _ => r
    end.

Definition is_array (s : bitmap) : bool :=
  match bm_c s with CArray _ _ => true | _ => false end.

Definition bm_and (a b : bitmap) : bitmap :=
  if is_array a && is_array b then and_arrays (iter_all a) (iter_all b) bm_create
  else
    let smaller := if bm_card a <? bm_card b then a else b in
    let other := if bm_card a <? bm_card b then b else a in
    fold_left (fun r v => if bm_contains other v then fst (bm_add r v) else r)
              (iter_all smaller) bm_create.

Definition bm_or (a b : bitmap) : bitmap :=
  fold_left (fun r v => fst (bm_add r v)) (iter_all b) (bm_clone a).

Definition bm_andnot (a b : bitmap) : bitmap :=
  fold_left (fun r v => if bm_contains b v then r else fst (bm_add r v)) (iter_all a) bm_create.

Definition bm_xor (a b : bitmap) : bitmap :=
  let r1 := fold_left (fun r v => if bm_contains b v then r else fst (bm_add r v)) (iter_all a) bm_create in
  fold_left (fun r v => if bm_contains a v then r else fst (bm_add r v)) (iter_all b) r1.

(* ------------------------------------------------------------------ *)
(* range operations                                                     *)

(* varintBitmapAddRange (after the F24 fix: the single-run shortcut only on an
   empty set) *)
Definition bm_add_range (s : bitmap) (min max : N) : bitmap :=
  if max <=? min then s
  else
    let rangeSize := max - min in
    if (4096 <? rangeSize) && (bm_card s =? 0) then
      mkBM rangeSize (CRuns [(min, u16' rangeSize)] 1)
    else for_loop min rangeSize (fun i r => fst (bm_add r i)) s.

(* varintBitmapRemoveRange *)
Definition bm_remove_range (s : bitmap) (min max : N) : bitmap :=
  for_loop min (max - min) (fun i r => fst (bm_remove r i)) s.

(* ------------------------------------------------------------------ *)
(* serialisation (little-endian host: memcpy of uint32_t / uint16_t)    *)

Definition enc_u16s (l : list N) : list N := flat_map (le_bytes 2) l.
Definition enc_runs (l : list (N * N)) : list N :=
  flat_map (fun r => le_bytes 2 (fst r) ++ le_bytes 2 (snd r)) l.

(* varintBitmapEncode: the bytes written (return value = their number) *)
Definition bm_encode (s : bitmap) : list N :=
  [bm_type s] ++ le_bytes 4 (bm_card s) ++
  match bm_c s with
  | CArray rvals _ => enc_u16s (arr_values rvals)
  | CBits bits => map (mget bits) byte_idx
  | CRuns runs _ => le_bytes 4 (lenN runs) ++ enc_runs runs
  end.

(* reading: `cnt` bytes at offset `off` (positions beyond the list read as 0;
   the decoder is proved never to ask for a position at or beyond `len`) *)
Definition rd (z : list N) (off cnt : N) : list N :=
  let s := firstnN cnt (skipnN off z) in
  s ++ replN (cnt - lenN s) 0.

Fixpoint dec_u16s (l : list N) : list N :=
  match l with
  | a :: b :: t => (a + 256 * b) :: dec_u16s t
  | _ => []
  end.
Fixpoint dec_runs (l : list N) : list (N * N) :=
  match l with
  | a :: b :: c :: d :: t => (a + 256 * b, c + 256 * d) :: dec_runs t
  | _ => []
  end.

(* values[i-1] < values[i] for all i *)
Fixpoint ascending (l : list N) : bool :=
  match l with
  | a :: ((b :: _) as t) => (a <? b) && ascending t
  | _ => true
  end.

(* the run validation loop: Some total, or None as soon as a run is rejected *)
Fixpoint check_runs (runs : list (N * N)) (nextFree total : N) : option N :=
  match runs with
  | [] => Some total
  | (start, len) :: t =>
      if (len =? 0) || (start <? nextFree) || (65536 <? start + len) then None
      else check_runs t (start + len) (u32' (total + len))
  end.

(* varintBitmapDecode(buffer, len): (result or NULL, bytes requested from malloc) *)
Definition bm_decode (z : list N) (len : N) : option bitmap * N :=
  if len <? 5 then (None, 0)
  else
    let type := nthN z 0 in
    let cardinality := of_le (rd z 1 4) in
    let len1 := len - 5 in
    if (2 <? type) || (65536 <? cardinality) then (None, 0)
    else if type =? 0 then
      if len1 / 2 <? cardinality then (None, 24)
      else
        let vals := dec_u16s (rd z 5 (cardinality * 2)) in
        if ascending vals then (Some (mkBM cardinality (CArray (arr_of_values vals) cardinality)), 24 + cardinality * 2)
        else (None, 24 + cardinality * 2)
    else if type =? 1 then
      if len1 <? 8192 then (None, 24)
      else
        let bits := mem_of_bytes (rd z 5 8192) in
        if bitmap_cardinality bits =? cardinality then (Some (mkBM cardinality (CBits bits)), 24 + 8192)
        else (None, 24 + 8192)
    else
      if len1 <? 4 then (None, 24)
      else
        let numRuns := of_le (rd z 5 4) in
        let len2 := len1 - 4 in
        if (cardinality <? numRuns) || (len2 / 4 <? numRuns) then (None, 24)
        else
          let runs := dec_runs (rd z 9 (numRuns * 4)) in
          match check_runs runs 0 0 with
          | Some total =>
              if total =? cardinality then (Some (mkBM cardinality (CRuns runs numRuns)), 24 + numRuns * 4)
              else (None, 24 + numRuns * 4)
          | None => (None, 24 + numRuns * 4)
          end.

(* EXTRACT: bm_create bm_clone bm_add bm_remove bm_contains bm_cardinality bm_is_empty
   bm_optimize bm_clear bm_size_bytes bm_get_stats bm_type iter_all iter_init iter_next it_pos it_cur it_has
   bm_to_array bm_add_many bm_and bm_or bm_xor bm_andnot bm_add_range bm_remove_range
   bm_encode bm_decode bm_card lenN insertN binary_search skipnN add_array *)
