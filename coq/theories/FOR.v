(* FOR.v — Gallina model of src/varintFOR.{c,h} (scalar build: neither
   VARINT_FOR_NEON nor VARINT_FOR_AVX2 is defined by the pinned flags; the
   AVX2 analysis computes the same min/max).

   Layout: [min:tagged][offset_width:1][count:tagged][offset]*count, offsets
   little-endian at fixed width.  [None] = undefined behaviour in C (empty
   input with asserts compiled out, an offset width the external-varint
   switch does not handle). *)
Require Import VV.Base VV.Tagged VV.Delta.
Local Open Scope N_scope.

(* struct varintFORMeta *)
Record for_meta := mk_for_meta {
  fm_min : N;      (* minValue *)
  fm_max : N;      (* maxValue *)
  fm_range : N;    (* range *)
  fm_count : N;    (* count *)
  fm_size : N;     (* encodedSize *)
  fm_width : N     (* offsetWidth *)
}.

(* varintFORComputeWidth *)
Definition for_compute_width (range : N) : N := N.of_nat (ext_width range).

(* varintFORSize(meta): minWidth + 1 + countWidth + (count * offsetWidth),
   the product and the sum in size_t *)
Definition for_size_of (minv count width : N) : N :=
  u64 (tagged_len minv + 1 + tagged_len count + mul64 count width).
Definition for_size (m : for_meta) : N :=
  for_size_of (fm_min m) (fm_count m) (fm_width m).

(* the min/max loop of varintFORAnalyze *)
Fixpoint for_minmax (mn mx : N) (vs : list N) : N * N :=
  match vs with
  | [] => (mn, mx)
  | v :: t => for_minmax (if v <? mn then v else mn) (if mx <? v then v else mx) t
  end.

(* varintFORAnalyze(values, count, meta); count = length values.  With
   count = 0 (assert compiled out) values[0] is read: None. *)
Definition for_analyze (values : list N) : option for_meta :=
  match values with
  | [] => None
  | v0 :: rest =>
      let '(mn, mx) := for_minmax v0 v0 rest in
      let range := sub64 mx mn in
      let w := for_compute_width range in
      let count := N.of_nat (length values) in
      Some (mk_for_meta mn mx range count (for_size_of mn count w) w)
  end.

(* the offset loop of varintFOREncode *)
Fixpoint for_put_offsets (minv w : N) (vs : list N) : option (list N) :=
  match vs with
  | [] => Some []
  | v :: t =>
      match dfg_ext_put_quick (sub64 v minv) w, for_put_offsets minv w t with
      | Some b, Some r => Some (b ++ r)
      | _, _ => None
      end
  end.

(* header + offsets written from a meta *)
Definition for_emit (m : for_meta) (values : list N) : option (list N) :=
  match for_put_offsets (fm_min m) (fm_width m) values with
  | Some offs =>
      Some (tagged_put64 (fm_min m) ++ [u8 (fm_width m)] ++ tagged_put64 (fm_count m) ++ offs)
  | None => None
  end.

(* varintFOREncode(dst, values, count, meta): count = length values; [meta]
   is the caller's struct (None = NULL).  Result: bytes written and the
   caller's struct after the call.  The caller's meta is trusted whenever its
   count field equals count. *)
Definition for_encode_with (analyze : list N -> option for_meta)
    (values : list N) (meta : option for_meta) : option (list N * option for_meta) :=
  let count := N.of_nat (length values) in
  match values with
  | [] => None
  | _ =>
      let reanalyze :=
        match meta with None => true | Some m0 => negb (fm_count m0 =? count) end in
      if reanalyze then
        match analyze values with
        | None => None
        | Some lm =>
            match for_emit lm values with
            | Some bs => Some (bs, match meta with None => None | Some _ => Some lm end)
            | None => None
            end
        end
      else
        match meta with
        | Some m0 =>
            match for_emit m0 values with Some bs => Some (bs, Some m0) | None => None end
        | None => None
        end
  end.
Definition for_encode := for_encode_with for_analyze.

(* varintFORReadMetadata(src, meta) *)
Definition for_read_metadata (src : list N) : for_meta :=
  let r1 := tagged_get64 src in
  let minW := fst r1 in
  let minV := snd r1 in
  let p1 := skipn (N.to_nat minW) src in
  let ow := byte_at p1 0 in
  let r2 := tagged_get64 (tl p1) in
  let cntW := fst r2 in
  let cnt := snd r2 in
  mk_for_meta minV minV 0 cnt (u64 (minW + 1 + cntW + mul64 cnt ow)) ow.

(* the decode loop: n values at fixed width from [data] *)
Fixpoint for_get_offsets (minv w : N) (data : list N) (n : nat) : option (list N) :=
  match n with
  | O => Some []
  | S n' =>
      match dfg_ext_get_quick data w with
      | None => None
      | Some off =>
          match for_get_offsets minv w (skipn (N.to_nat w) data) n' with
          | Some r => Some (add64 minv off :: r)
          | None => None
          end
      end
  end.

(* minWidth + 1 + countWidth recomputed with varintTaggedLen *)
Definition for_data_offset (m : for_meta) : N :=
  tagged_len (fm_min m) + 1 + tagged_len (fm_count m).

(* varintFORDecode(src, values, maxCount): (return value, values[0..) stored).
   The loop count is the header's count, which is <= maxCount here. *)
Definition for_decode (src : list N) (maxCount : N) : option (N * list N) :=
  let m := for_read_metadata src in
  if maxCount <? fm_count m then Some (0, [])
  else
    match for_get_offsets (fm_min m) (fm_width m)
            (skipn (N.to_nat (for_data_offset m)) src) (N.to_nat (fm_count m)) with
    | Some vs => Some (fm_count m, vs)
    | None => None
    end.

(* varintFORGetAt(src, index) (assert(index < count) compiled out) *)
Definition for_get_at (src : list N) (index : N) : option N :=
  let m := for_read_metadata src in
  let data := skipn (N.to_nat (u64 (for_data_offset m + mul64 index (fm_width m)))) src in
  match dfg_ext_get_quick data (fm_width m) with
  | Some off => Some (add64 (fm_min m) off)
  | None => None
  end.

(* varintFORGetMinValue / GetCount / GetOffsetWidth *)
Definition for_get_min_value (src : list N) : N := snd (tagged_get64 src).
Definition for_get_count (src : list N) : N :=
  let minW := fst (tagged_get64 src) in
  snd (tagged_get64 (skipn (N.to_nat (minW + 1)) src)).
Definition for_get_offset_width (src : list N) : N :=
  byte_at src (N.to_nat (fst (tagged_get64 src))).

(* varintFORBatchAnalyze: scalar fallback on this build *)
Definition for_batch_analyze := for_analyze.

(* varintFORBatchDecode: count check, then varintFORDecode *)
Definition for_batch_decode (src : list N) (maxCount : N) : option (N * list N) :=
  let m := for_read_metadata src in
  if maxCount <? fm_count m then Some (0, []) else for_decode src maxCount.

(* varintFORBatchEncode: same text as varintFOREncode with BatchAnalyze *)
Definition for_batch_encode := for_encode_with for_batch_analyze.

(* varintFORDecodeBlock(src, values, startIndex, blockSize) *)
Definition for_decode_block (src : list N) (startIndex blockSize : N) : option (N * list N) :=
  let m := for_read_metadata src in
  if fm_count m <=? startIndex then Some (0, [])
  else
    let actual :=
      if fm_count m <? add64 startIndex blockSize then fm_count m - startIndex else blockSize in
    let data := skipn (N.to_nat (u64 (for_data_offset m + mul64 startIndex (fm_width m)))) src in
    match for_get_offsets (fm_min m) (fm_width m) data (N.to_nat actual) with
    | Some vs => Some (actual, vs)
    | None => None
    end.

(* EXTRACT: for_compute_width for_size for_analyze for_encode for_read_metadata for_decode
   for_get_at for_get_min_value for_get_count for_get_offset_width for_batch_analyze
   for_batch_decode for_batch_encode for_decode_block
   fm_min fm_max fm_range fm_count fm_size fm_width *)
