(* Properties_C06_adaptive.v — property C06 (adaptive encoding is lossless
   whatever it selects).  Nothing but statements closed by `exact`, each followed
   by Print Assumptions.

   Reading guide.  `adp_encode_with xs e` = varintAdaptiveEncodeWith(dst, xs, count, e,
   &meta): AEOk bytes m (bytes written, *meta; the return value is am_size m), AEFail
   (returned 0), AEUB (FOR on an empty array with asserts compiled out).
   `adp_encode xs` = varintAdaptiveEncode.  `adp_decode src maxCount` =
   varintAdaptiveDecode: ADOk ret stores pm.  Every decoder equation is stated for the
   encoder's bytes followed by an ARBITRARY suffix tl: nothing behind the bytes the
   encoder reported writing is needed.  Encoding codes: 0 DELTA, 1 FOR, 2 PFOR, 3 DICT,
   4 BITMAP, 5 TAGGED.  2^59 = 576460752303423488 bounds the count so that
   21 + 22 * count is computed without wrap-around. *)
Require Import VV.Base VV.Tagged VV.Delta VV.FOR VV.PFOR VV.Dict VV.DictProofs VV.Bitmap VV.Adaptive.
Require Import VV.AdaptiveSelectProofs VV.AdaptiveTheorems.
From Coq Require Import Sorted.
Local Open Scope N_scope.

(* ---- forcing an encoding whose domain contains the input is lossless ---- *)

Theorem C06_adaptive_with_roundtrip_delta : forall xs,
  Forall (fun x => x < 18446744073709551616) xs -> N.of_nat (length xs) < 576460752303423488 ->
  exists bytes m, adp_encode_with xs 0 = AEOk bytes m /\ hd 0 bytes = 0 /\
    am_type m = 0 /\ am_count m = N.of_nat (length xs) /\ am_size m = N.of_nat (length bytes) /\
    N.of_nat (length bytes) <= adp_max_size (N.of_nat (length xs)) /\
    forall tl, exists pm,
      adp_decode (bytes ++ tl) (N.of_nat (length xs)) = ADOk (N.of_nat (length xs)) xs pm.
Proof. exact adp_with_delta. Qed.
Print Assumptions C06_adaptive_with_roundtrip_delta.

Theorem C06_adaptive_with_roundtrip_for : forall xs, xs <> [] ->
  Forall (fun x => x < 18446744073709551616) xs -> N.of_nat (length xs) < 576460752303423488 ->
  exists bytes m, adp_encode_with xs 1 = AEOk bytes m /\ hd 0 bytes = 1 /\
    am_type m = 1 /\ am_count m = N.of_nat (length xs) /\ am_size m = N.of_nat (length bytes) /\
    N.of_nat (length bytes) <= adp_max_size (N.of_nat (length xs)) /\
    forall tl, exists pm,
      adp_decode (bytes ++ tl) (N.of_nat (length xs)) = ADOk (N.of_nat (length xs)) xs pm.
Proof. exact adp_with_for. Qed.
Print Assumptions C06_adaptive_with_roundtrip_for.

(* PFOR: the count is cast to uint32_t by varintAdaptiveEncodeWith *)
Theorem C06_adaptive_with_roundtrip_pfor : forall xs,
  (1 <= length xs)%nat -> N.of_nat (length xs) < 4294967296 ->
  Forall (fun x => x < 18446744073709551616) xs ->
  exists bytes m, adp_encode_with xs 2 = AEOk bytes m /\ hd 0 bytes = 2 /\
    am_type m = 2 /\ am_count m = N.of_nat (length xs) /\ am_size m = N.of_nat (length bytes) /\
    N.of_nat (length bytes) <= adp_max_size (N.of_nat (length xs)) /\
    forall tl, exists pm,
      adp_decode (bytes ++ tl) (N.of_nat (length xs)) = ADOk (N.of_nat (length xs)) xs pm.
Proof. exact adp_with_pfor. Qed.
Print Assumptions C06_adaptive_with_roundtrip_pfor.

(* DICT: at most 2^20 distinct values (dict_values_of xs = the sorted distinct values) *)
Theorem C06_adaptive_with_roundtrip_dict : forall xs, xs <> [] ->
  N.of_nat (length (dict_values_of xs)) <= 1048576 ->
  Forall (fun x => x < 18446744073709551616) xs -> N.of_nat (length xs) < 576460752303423488 ->
  exists bytes m, adp_encode_with xs 3 = AEOk bytes m /\ hd 0 bytes = 3 /\
    am_type m = 3 /\ am_count m = N.of_nat (length xs) /\ am_size m = N.of_nat (length bytes) /\
    N.of_nat (length bytes) <= adp_max_size (N.of_nat (length xs)) /\
    forall tl, exists pm,
      adp_decode (bytes ++ tl) (N.of_nat (length xs)) = ADOk (N.of_nat (length xs)) xs pm.
Proof. exact adp_with_dict. Qed.
Print Assumptions C06_adaptive_with_roundtrip_dict.

(* ... beyond that the failure is REPORTED (return 0), only the type byte was written *)
Theorem C06_adaptive_with_dict_refuses : forall xs, xs <> [] ->
  1048576 < N.of_nat (length (dict_values_of xs)) -> adp_encode_with xs 3 = AEFail [3].
Proof. exact VV.AdaptiveDictProofs.adp_encode_with_dict_refused. Qed.
Print Assumptions C06_adaptive_with_dict_refuses.

(* BITMAP: strictly increasing values below 65536 *)
Theorem C06_adaptive_with_roundtrip_bitmap : forall xs,
  StronglySorted N.lt xs -> Forall (fun v => v < 65536) xs ->
  exists bytes m, adp_encode_with xs 4 = AEOk bytes m /\ hd 0 bytes = 4 /\
    am_type m = 4 /\ am_count m = N.of_nat (length xs) /\ am_size m = N.of_nat (length bytes) /\
    N.of_nat (length bytes) <= adp_max_size (N.of_nat (length xs)) /\
    forall tl, exists pm,
      adp_decode (bytes ++ tl) (N.of_nat (length xs)) = ADOk (N.of_nat (length xs)) xs pm.
Proof. exact adp_with_bitmap. Qed.
Print Assumptions C06_adaptive_with_roundtrip_bitmap.

(* TAGGED (5), and every other code up to 255 (6 = GROUP "future", ...): the switch's default *)
Theorem C06_adaptive_with_roundtrip_tagged : forall xs e, 5 <= e < 256 ->
  Forall (fun x => x < 18446744073709551616) xs -> N.of_nat (length xs) < 576460752303423488 ->
  exists bytes m, adp_encode_with xs e = AEOk bytes m /\ hd 0 bytes = e /\
    am_type m = e /\ am_count m = N.of_nat (length xs) /\ am_size m = N.of_nat (length bytes) /\
    N.of_nat (length bytes) <= adp_max_size (N.of_nat (length xs)) /\
    forall tl, exists pm,
      adp_decode (bytes ++ tl) (N.of_nat (length xs)) = ADOk (N.of_nat (length xs)) xs pm.
Proof. exact adp_with_tagged. Qed.
Print Assumptions C06_adaptive_with_roundtrip_tagged.

(* ---- the selection is sound: only the integer conjuncts of the decision tree are used;
   the three binary32 ratio tests play no role.  BITMAP is the only encoding with a
   restricted domain that the analysis can guarantee: it is chosen only for strictly
   increasing values below 65536 (isSorted, uniqueCount = count — exact because
   count < 10000 —, maxValue < 65536). ---- *)
Theorem C06_adaptive_select_sound_bitmap : forall xs, adp_select (adp_analyze xs) = 4 ->
  StronglySorted N.lt xs /\ Forall (fun v => v < 65536) xs /\ 2 <= N.of_nat (length xs) < 10000.
Proof. exact adp_select_bitmap_sound. Qed.
Print Assumptions C06_adaptive_select_sound_bitmap.

Theorem C06_adaptive_select_is_a_code : forall s, adp_select s <= 5.
Proof. exact adp_select_range. Qed.
Print Assumptions C06_adaptive_select_is_a_code.

(* ---- the automatic encoder: every array of 1 .. 2^32-1 values round-trips; the first
   byte is the reported encodingType; it is the selected encoding, except that a DICT
   selection for more than 2^20 distinct values (the estimate of the stride sampler can
   be that wrong) falls back to TAGGED (fix F33). ---- *)
Theorem C06_adaptive_roundtrip : forall xs,
  Forall (fun x => x < 18446744073709551616) xs ->
  (1 <= length xs)%nat -> N.of_nat (length xs) < 4294967296 ->
  exists e,
    (exists bytes m, adp_encode xs = AEOk bytes m /\ hd 0 bytes = e /\
       am_type m = e /\ am_count m = N.of_nat (length xs) /\ am_size m = N.of_nat (length bytes) /\
       N.of_nat (length bytes) <= adp_max_size (N.of_nat (length xs)) /\
       forall tl, exists pm,
         adp_decode (bytes ++ tl) (N.of_nat (length xs)) = ADOk (N.of_nat (length xs)) xs pm) /\
    (e = adp_select (adp_analyze xs) \/
     (adp_select (adp_analyze xs) = 3 /\ 1048576 < N.of_nat (length (dict_values_of xs)) /\ e = 5)).
Proof. exact adp_encode_faithful. Qed.
Print Assumptions C06_adaptive_roundtrip.

(* non-vacuity: one array per branch of the decision tree, selection and round trip by
   computation (the 21-element ramp is a BITMAP, a shuffled cluster with one outlier a PFOR) *)
Example C06_adaptive_examples :
  adp_select (adp_analyze [5; 5; 5; 5; 5; 5; 5; 9; 5; 5; 5; 5; 5; 5; 5; 5; 5; 5; 5; 5]) = 3 /\
  adp_select (adp_analyze [1; 2; 3; 4; 5; 6; 7; 8; 9; 10; 11; 12; 13; 14; 15; 16; 17; 18; 19; 20; 21]) = 4 /\
  adp_select (adp_analyze [40; 39; 38; 37; 36; 35]) = 0 /\
  adp_select (adp_analyze [1000000; 1050000; 1100000; 1150000]) = 0 /\
  adp_select (adp_analyze [1000; 1003; 1001; 1007; 1002; 1004; 1009; 1005; 1008; 1006; 1010; 1013; 1011;
                           1017; 1012; 1014; 1019; 1015; 1018; 1016; 1020; 1023; 900000]) = 2 /\
  adp_select (adp_analyze [0; 150; 1; 149; 2; 148]) = 1 /\
  adp_select (adp_analyze [0; 18446744073709551615; 7]) = 5 /\
  (match adp_encode [1; 2; 3; 4; 5; 6; 7; 8; 9; 10; 11; 12; 13; 14; 15; 16; 17; 18; 19; 20; 21] with
   | AEOk b _ => adp_decode b 21 | _ => ADUB end)
  = ADOk 21 [1; 2; 3; 4; 5; 6; 7; 8; 9; 10; 11; 12; 13; 14; 15; 16; 17; 18; 19; 20; 21] None.
Proof. vm_compute. repeat split; reflexivity. Qed.
