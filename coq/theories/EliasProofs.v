(* EliasProofs.v — end-to-end statements about varintElias: byte-exact codes,
   round trip through the bytes/bits the encoder reports, capacity, bounded
   reads (non-interference), truthful meta.  Used by Properties_C*_elias.v. *)
Require Import VV.Base VV.BaseProofs VV.EliasBits VV.Elias VV.EliasSpec
  VV.EliasBitsProofs VV.EliasReadProofs VV.EliasEncProofs VV.EliasDecProofs.
From Coq Require Import Lia ZifyBool ZifyN ZifyNat Arith.
Local Open Scope N_scope.
Ltac Zify.zify_post_hook ::= Z.div_mod_to_equations.

(* ------------------------------------------------------------------ codes inverted on bit lists *)

Lemma firstn_exact {A} (a b : list A) k : length a = k -> firstn k (a ++ b) = a.
Proof.
  intros <-. rewrite firstn_app, Nat.sub_diag, firstn_all. cbn [firstn]. apply app_nil_r.
Qed.

Lemma skipn_exact {A} (a b : list A) k : length a = k -> skipn k (a ++ b) = b.
Proof.
  intros <-. rewrite skipn_app, Nat.sub_diag, skipn_all. reflexivity.
Qed.

Lemma log2_bounds x : 1 <= x -> 2 ^ N.log2 x <= x < 2 * 2 ^ N.log2 x.
Proof.
  intros H. pose proof (N.log2_spec x ltac:(lia)) as S. rewrite N.pow_succ_r' in S. exact S.
Qed.

Lemma a_tail_rt x rest : elias_ok x ->
  a_tail (N.log2 x) (bits_msb_n (N.to_nat (N.log2 x)) x ++ rest) = (x, rest).
Proof.
  intros [H1 H2]. pose proof (log2_lt64 x H2) as Hn. pose proof (log2_bounds x H1) as Hb.
  unfold a_tail, a_has. set (n := N.log2 x) in *.
  destruct (n =? 0) eqn:E0.
  - assert (n = 0) as Hz by lia. rewrite Hz in *. change (2 ^ 0) with 1 in Hb.
    cbn [N.to_nat bits_msb_n app]. f_equal. lia.
  - rewrite app_length, length_bits_msb_n.
    replace (n <=? N.of_nat (N.to_nat n + length rest)) with true by lia. cbn [negb].
    rewrite firstn_exact, skipn_exact by apply length_bits_msb_n.
    rewrite val_msb_bits_msb_n, N2Nat.id. f_equal.
    set (P := 2 ^ n) in *.
    replace x with ((x - P) + 1 * P) at 1 by lia.
    rewrite N.mod_add by lia. rewrite N.mod_small by lia. lia.
Qed.

Lemma gamma_code_shape x : 1 <= x ->
  gamma_code x = repeat false (N.to_nat (N.log2 x)) ++ true :: bits_msb_n (N.to_nat (N.log2 x)) x.
Proof. intros. unfold gamma_code. rewrite bits_msb_head by assumption. reflexivity. Qed.

Lemma a_gamma_rt x rest : elias_ok x -> a_gamma_decode (gamma_code x ++ rest) = (x, rest).
Proof.
  intros Hok. pose proof Hok as [H1 H2]. pose proof (log2_lt64 x H2) as Hn.
  unfold a_gamma_decode. rewrite gamma_code_shape by assumption.
  rewrite <- app_assoc. cbn [app].
  rewrite a_gamma_count_zeros by lia.
  rewrite N.add_0_l, N2Nat.id. apply a_tail_rt. assumption.
Qed.

Lemma a_delta_rt x rest : elias_ok x -> a_delta_decode (delta_code x ++ rest) = (x, rest).
Proof.
  intros Hok. pose proof Hok as [H1 H2]. pose proof (log2_lt64 x H2) as Hn.
  unfold a_delta_decode, delta_code. rewrite bits_msb_head by assumption. cbn [tl].
  rewrite <- app_assoc. rewrite a_gamma_rt by (unfold elias_ok; lia).
  replace ((N.log2 x + 1 =? 0) || (64 <? N.log2 x + 1)) with false by lia.
  replace (N.log2 x + 1 - 1) with (N.log2 x) by lia.
  apply a_tail_rt. assumption.
Qed.

(* padding bits (zeros) never decode to a value *)
Lemma a_gamma_count_all_zeros fuel : forall j n,
  fst (fst (a_gamma_count fuel (repeat false j) n)) = false.
Proof.
  induction fuel; intros j n; cbn [a_gamma_count]; [reflexivity|].
  destruct j; cbn [repeat]; [reflexivity|].
  destruct (63 <? n + 1); [reflexivity|]. apply IHfuel.
Qed.

Lemma a_gamma_zeros j : fst (a_gamma_decode (repeat false j)) = 0.
Proof.
  unfold a_gamma_decode. pose proof (a_gamma_count_all_zeros 64 j 0) as H.
  destruct (a_gamma_count 64 (repeat false j) 0) as [[ok n] l1]. cbn [fst] in H. subst ok.
  reflexivity.
Qed.

Lemma a_delta_zeros j : fst (a_delta_decode (repeat false j)) = 0.
Proof.
  unfold a_delta_decode. pose proof (a_gamma_zeros j) as H.
  destruct (a_gamma_decode (repeat false j)) as [v l1]. cbn [fst] in H. subst v. reflexivity.
Qed.

Lemma gamma_code_nonempty x : elias_ok x -> (1 <= length (gamma_code x))%nat.
Proof. intros [H1 _]. pose proof (length_gamma_code x H1). lia. Qed.

Lemma delta_code_nonempty x : elias_ok x -> (1 <= length (delta_code x))%nat.
Proof. intros [H1 _]. pose proof (length_delta_code x H1). lia. Qed.

(* ------------------------------------------------------------------ the array loop on bit lists *)

Section Loop.
  Variable adec : list bool -> N * list bool.
  Variable code : N -> list bool.
  Hypothesis Hrt : forall x rest, elias_ok x -> adec (code x ++ rest) = (x, rest).
  Hypothesis Hne : forall x, elias_ok x -> (1 <= length (code x))%nat.
  Hypothesis Hz : forall j, fst (adec (repeat false j)) = 0.

  Lemma a_loop_codes : forall xs cap rest, Forall elias_ok xs ->
    a_loop adec (codes code xs ++ rest) cap = firstn cap xs ++ a_loop adec rest (cap - length xs).
  Proof.
    induction xs as [|x xs IH]; intros cap rest Hok.
    - cbn [codes map concat app length firstn]. rewrite firstn_nil, Nat.sub_0_r. reflexivity.
    - inversion Hok as [|? ? Hx Hxs]; subst.
      destruct cap as [|c]; [reflexivity|].
      cbn [codes map concat]. fold (codes code xs). cbn [a_loop length firstn Nat.sub].
      rewrite <- app_assoc.
      unfold a_has. rewrite app_length. specialize (Hne x Hx).
      replace (1 <=? N.of_nat (length (code x) + length (codes code xs ++ rest))) with true by lia.
      rewrite Hrt by assumption.
      destruct Hx as [Hx1 Hx2]. replace (x =? 0) with false by lia.
      cbn [app]. f_equal. apply IH. assumption.
  Qed.

  Lemma a_loop_zeros j cap : a_loop adec (repeat false j) cap = [].
  Proof.
    destruct cap; cbn [a_loop]; [reflexivity|].
    destruct (a_has (repeat false j) 1); [|reflexivity].
    specialize (Hz j). destruct (adec (repeat false j)) as [v l']. cbn [fst] in Hz. subst v.
    reflexivity.
  Qed.

  Lemma a_loop_codes_padded xs cap pad : Forall elias_ok xs ->
    a_loop adec (codes code xs ++ repeat false pad) cap = firstn cap xs.
  Proof.
    intros Hok. rewrite a_loop_codes by assumption. rewrite a_loop_zeros. apply app_nil_r.
  Qed.
End Loop.

(* ------------------------------------------------------------------ round trip, every capacity *)

Definition count_ok (xs : list N) : Prop := N.of_nat (length xs) < 144115188075855872. (* 2^57 *)

Lemma decode_packed adec code xs tail srcBits cap :
  (forall x rest, elias_ok x -> adec (code x ++ rest) = (x, rest)) ->
  (forall x, elias_ok x -> (1 <= length (code x))%nat) ->
  (forall j, fst (adec (repeat false j)) = 0) ->
  Forall elias_ok xs ->
  N.of_nat (length (codes code xs)) <= srcBits <= 8 * N.of_nat (length (pack_msb (codes code xs))) ->
  a_loop adec (bits_of (pack_msb (codes code xs) ++ tail) 0 (N.to_nat srcBits)) cap = firstn cap xs.
Proof.
  intros Hrt Hne Hz Hok Hb.
  rewrite bits_of_pack_msb by lia.
  apply a_loop_codes_padded; assumption.
Qed.

Theorem gamma_array_roundtrip xs tail srcBits cap :
  Forall elias_ok xs -> count_ok xs ->
  let e := elias_gamma_encode_array xs in
  ee_totalBits e <= srcBits <= 8 * ee_ret e ->
  elias_gamma_decode_array (ee_bytes e ++ tail) srcBits cap = firstn cap xs.
Proof.
  intros Hok Hc. unfold count_ok in Hc. cbv zeta.
  destruct (gamma_encode_array_spec xs Hok ltac:(lia)) as (B & R & C & T & E & ER & X & L & O).
  rewrite B, R, T. intros Hb.
  rewrite X, (gamma_max_bytes_spec (N.of_nat (length xs)) ltac:(lia)), R in L.
  rewrite gamma_decode_array_abs by lia.
  apply decode_packed; auto using a_gamma_rt, gamma_code_nonempty, a_gamma_zeros.
Qed.

Theorem delta_array_roundtrip xs tail srcBits cap :
  Forall elias_ok xs -> count_ok xs ->
  let e := elias_delta_encode_array xs in
  ee_totalBits e <= srcBits <= 8 * ee_ret e ->
  elias_delta_decode_array (ee_bytes e ++ tail) srcBits cap = firstn cap xs.
Proof.
  intros Hok Hc. unfold count_ok in Hc. cbv zeta.
  destruct (delta_encode_array_spec xs Hok ltac:(lia)) as (B & R & C & T & E & ER & X & L & O).
  rewrite B, R, T. intros Hb.
  rewrite X, (delta_max_bytes_spec (N.of_nat (length xs)) ltac:(lia)), R in L.
  rewrite delta_decode_array_abs by lia.
  apply decode_packed; auto using a_delta_rt, delta_code_nonempty, a_delta_zeros.
Qed.

(* ------------------------------------------------------------------ bounded reads *)

Lemma firstn_bits z z' bits :
  firstn (N.to_nat ((bits + 7) / 8)) z = firstn (N.to_nat ((bits + 7) / 8)) z' ->
  bits_of z 0 (N.to_nat bits) = bits_of z' 0 (N.to_nat bits).
Proof. intros H. apply bits_of_firstn with (m := N.to_nat ((bits + 7) / 8)); [assumption|lia]. Qed.

Theorem gamma_decode_noninterference z z' bits cap : bits + 64 < 18446744073709551616 ->
  firstn (N.to_nat ((bits + 7) / 8)) z = firstn (N.to_nat ((bits + 7) / 8)) z' ->
  elias_gamma_decode_array z bits cap = elias_gamma_decode_array z' bits cap.
Proof.
  intros Hb H. rewrite !gamma_decode_array_abs by assumption. rewrite (firstn_bits z z' bits H). reflexivity.
Qed.

Theorem delta_decode_noninterference z z' bits cap : bits + 64 < 18446744073709551616 ->
  firstn (N.to_nat ((bits + 7) / 8)) z = firstn (N.to_nat ((bits + 7) / 8)) z' ->
  elias_delta_decode_array z bits cap = elias_delta_decode_array z' bits cap.
Proof.
  intros Hb H. rewrite !delta_decode_array_abs by assumption. rewrite (firstn_bits z z' bits H). reflexivity.
Qed.

(* even the unused low bits of the last declared byte do not matter *)
Theorem gamma_decode_bits_only z z' bits cap : bits + 64 < 18446744073709551616 ->
  bits_of z 0 (N.to_nat bits) = bits_of z' 0 (N.to_nat bits) ->
  elias_gamma_decode_array z bits cap = elias_gamma_decode_array z' bits cap.
Proof. intros Hb H. rewrite !gamma_decode_array_abs by assumption. rewrite H. reflexivity. Qed.

Theorem delta_decode_bits_only z z' bits cap : bits + 64 < 18446744073709551616 ->
  bits_of z 0 (N.to_nat bits) = bits_of z' 0 (N.to_nat bits) ->
  elias_delta_decode_array z bits cap = elias_delta_decode_array z' bits cap.
Proof. intros Hb H. rewrite !delta_decode_array_abs by assumption. rewrite H. reflexivity. Qed.

(* ------------------------------------------------------------------ capacity and well-formed output, any input *)

Theorem gamma_decode_capacity z bits cap :
  (length (elias_gamma_decode_array z bits cap) <= cap)%nat /\
  Forall (fun v => v <> 0) (elias_gamma_decode_array z bits cap).
Proof. split; [apply decode_loop_length|apply decode_loop_nonzero]. Qed.

Theorem delta_decode_capacity z bits cap :
  (length (elias_delta_decode_array z bits cap) <= cap)%nat /\
  Forall (fun v => v <> 0) (elias_delta_decode_array z bits cap).
Proof. split; [apply decode_loop_length|apply decode_loop_nonzero]. Qed.

(* ------------------------------------------------------------------ C04 / C03 / C16 wrappers *)

Theorem gamma_bytes_spec xs : Forall elias_ok xs -> count_ok xs ->
  ee_bytes (elias_gamma_encode_array xs) = pack_msb (concat (map gamma_code xs)).
Proof. intros Hok Hc. unfold count_ok in Hc. apply (gamma_encode_array_spec xs Hok ltac:(lia)). Qed.

Theorem delta_bytes_spec xs : Forall elias_ok xs -> count_ok xs ->
  ee_bytes (elias_delta_encode_array xs) = pack_msb (concat (map delta_code xs)).
Proof. intros Hok Hc. unfold count_ok in Hc. apply (delta_encode_array_spec xs Hok ltac:(lia)). Qed.

Theorem gamma_encode_bound xs : Forall elias_ok xs -> count_ok xs ->
  let e := elias_gamma_encode_array xs in
  ee_extent e = elias_gamma_max_bytes (N.of_nat (length xs)) /\
  ee_ovf e = false /\
  ee_ret e <= elias_gamma_max_bytes (N.of_nat (length xs)) /\
  N.of_nat (length (ee_bytes e)) = ee_ret e.
Proof.
  intros Hok Hc. unfold count_ok in Hc. cbv zeta.
  destruct (gamma_encode_array_spec xs Hok ltac:(lia)) as (B & R & C & T & E & ER & X & L & O).
  rewrite B, R in *. rewrite <- X. auto.
Qed.

Theorem delta_encode_bound xs : Forall elias_ok xs -> count_ok xs ->
  let e := elias_delta_encode_array xs in
  ee_extent e = elias_delta_max_bytes (N.of_nat (length xs)) /\
  ee_ovf e = false /\
  ee_ret e <= elias_delta_max_bytes (N.of_nat (length xs)) /\
  N.of_nat (length (ee_bytes e)) = ee_ret e.
Proof.
  intros Hok Hc. unfold count_ok in Hc. cbv zeta.
  destruct (delta_encode_array_spec xs Hok ltac:(lia)) as (B & R & C & T & E & ER & X & L & O).
  rewrite B, R in *. rewrite <- X. auto.
Qed.

(* the bounds are attained: 2^64-1 takes 127 gamma bits and 76 delta bits *)
Lemma gamma_bound_tight : N.of_nat (length (gamma_code 18446744073709551615)) = 127.
Proof. rewrite length_gamma_code by lia. reflexivity. Qed.
Lemma delta_bound_tight : N.of_nat (length (delta_code 18446744073709551615)) = 76.
Proof. rewrite length_delta_code by lia. reflexivity. Qed.

Fixpoint sum_map (f : N -> N) (xs : list N) : N :=
  match xs with [] => 0 | x :: t => f x + sum_map f t end.

Lemma length_codes_sum code xs :
  N.of_nat (length (codes code xs)) = sum_map (fun x => N.of_nat (length (code x))) xs.
Proof.
  induction xs as [|x xs IH]; cbn [codes map concat length sum_map]; [reflexivity|].
  fold (codes code xs). rewrite app_length. lia.
Qed.

Theorem gamma_meta_truth xs : Forall elias_ok xs -> count_ok xs ->
  let e := elias_gamma_encode_array xs in
  ee_count e = N.of_nat (length xs) /\
  ee_totalBits e = sum_map (fun x => N.of_nat (length (gamma_code x))) xs /\
  ee_encodedBytes e = (ee_totalBits e + 7) / 8 /\
  ee_encodedBytes e = N.of_nat (length (ee_bytes e)) /\
  ee_encodedBytes e = ee_ret e /\
  length (elias_gamma_decode_array (ee_bytes e) (ee_totalBits e) (length xs)) = N.to_nat (ee_count e).
Proof.
  intros Hok Hc. cbv zeta.
  pose proof (gamma_array_roundtrip xs [] (ee_totalBits (elias_gamma_encode_array xs)) (length xs) Hok Hc) as RT.
  cbv zeta in RT. unfold count_ok in Hc.
  destruct (gamma_encode_array_spec xs Hok ltac:(lia)) as (B & R & C & T & E & ER & X & L & O).
  rewrite app_nil_r in RT. rewrite RT by (rewrite T, R, length_pack_msb; lia).
  rewrite firstn_all.
  split; [exact C|]. split; [rewrite T; apply length_codes_sum|].
  split; [rewrite E, T; reflexivity|]. split; [rewrite ER, R, B; reflexivity|].
  split; [exact ER|]. rewrite C. lia.
Qed.

Theorem delta_meta_truth xs : Forall elias_ok xs -> count_ok xs ->
  let e := elias_delta_encode_array xs in
  ee_count e = N.of_nat (length xs) /\
  ee_totalBits e = sum_map (fun x => N.of_nat (length (delta_code x))) xs /\
  ee_encodedBytes e = (ee_totalBits e + 7) / 8 /\
  ee_encodedBytes e = N.of_nat (length (ee_bytes e)) /\
  ee_encodedBytes e = ee_ret e /\
  length (elias_delta_decode_array (ee_bytes e) (ee_totalBits e) (length xs)) = N.to_nat (ee_count e).
Proof.
  intros Hok Hc. cbv zeta.
  pose proof (delta_array_roundtrip xs [] (ee_totalBits (elias_delta_encode_array xs)) (length xs) Hok Hc) as RT.
  cbv zeta in RT. unfold count_ok in Hc.
  destruct (delta_encode_array_spec xs Hok ltac:(lia)) as (B & R & C & T & E & ER & X & L & O).
  rewrite app_nil_r in RT. rewrite RT by (rewrite T, R, length_pack_msb; lia).
  rewrite firstn_all.
  split; [exact C|]. split; [rewrite T; apply length_codes_sum|].
  split; [rewrite E, T; reflexivity|]. split; [rewrite ER, R, B; reflexivity|].
  split; [exact ER|]. rewrite C. lia.
Qed.

(* ------------------------------------------------------------------ canonical, prefix-free, length-monotone *)

Theorem gamma_prefix_free x y r1 r2 : elias_ok x -> elias_ok y ->
  gamma_code x ++ r1 = gamma_code y ++ r2 -> x = y /\ r1 = r2.
Proof.
  intros Hx Hy H. pose proof (a_gamma_rt x r1 Hx) as A. rewrite H, (a_gamma_rt y r2 Hy) in A.
  injection A as -> ->. auto.
Qed.

Theorem delta_prefix_free x y r1 r2 : elias_ok x -> elias_ok y ->
  delta_code x ++ r1 = delta_code y ++ r2 -> x = y /\ r1 = r2.
Proof.
  intros Hx Hy H. pose proof (a_delta_rt x r1 Hx) as A. rewrite H, (a_delta_rt y r2 Hy) in A.
  injection A as -> ->. auto.
Qed.

Theorem gamma_len_mono x y : 1 <= x -> x <= y -> (length (gamma_code x) <= length (gamma_code y))%nat.
Proof.
  intros H1 H2. pose proof (length_gamma_code x H1). pose proof (length_gamma_code y ltac:(lia)).
  pose proof (N.log2_le_mono x y H2). lia.
Qed.

Theorem delta_len_mono x y : 1 <= x -> x <= y -> (length (delta_code x) <= length (delta_code y))%nat.
Proof.
  intros H1 H2. pose proof (length_delta_code x H1). pose proof (length_delta_code y ltac:(lia)).
  pose proof (N.log2_le_mono x y H2).
  pose proof (N.log2_le_mono (N.log2 x + 1) (N.log2 y + 1) ltac:(lia)). lia.
Qed.

(* ------------------------------------------------------------------ single values through the writer / reader API *)

Lemma single_roundtrip enc code dec adec cap x tail :
  enc_correct enc code -> dec_refines dec adec ->
  (forall x rest, elias_ok x -> adec (code x ++ rest) = (x, rest)) ->
  (forall x, elias_ok x -> N.of_nat (length (code x)) <= 127) ->
  elias_ok x ->
  bw_buffer (fst (enc (bw_init cap) x)) = pack_msb (code x) /\
  snd (enc (bw_init cap) x) = N.of_nat (length (code x)) /\
  bw_pos (fst (enc (bw_init cap) x)) = N.of_nat (length (code x)) /\
  fst (dec (br_init (bw_buffer (fst (enc (bw_init cap) x)) ++ tail) (snd (enc (bw_init cap) x)))) = x.
Proof.
  intros Henc Hdec Hrt Hlen Hx.
  destruct (Henc (bw_init cap) [] x Hx (bw_rep_init cap)) as (H1 & H2 & _ & _). cbn [app] in H1.
  specialize (Hlen x Hx).
  rewrite (bw_rep_buffer _ _ H1), H2. destruct H1 as (Hp & _). rewrite Hp.
  split; [reflexivity|]. split; [reflexivity|]. split; [reflexivity|].
  pose proof (br_rep_init (pack_msb (code x) ++ tail) (N.of_nat (length (code x))) ltac:(lia)) as Hr.
  rewrite Nat2N.id in Hr.
  rewrite bits_of_pack_msb in Hr by (rewrite length_pack_msb; lia).
  rewrite Nat.sub_diag in Hr. cbn [repeat] in Hr.
  destruct (Hdec _ _ _ Hr) as [Hv Hr']. rewrite Hrt in Hv, Hr' by assumption. cbn [fst snd] in Hv, Hr'.
  exact Hv.
Qed.

Lemma delta_code_le_127 x : elias_ok x -> N.of_nat (length (delta_code x)) <= 127.
Proof. intros H. pose proof (delta_code_le_76 x H). lia. Qed.

Theorem gamma_single_bytes cap x : elias_ok x ->
  bw_buffer (fst (elias_gamma_encode (bw_init cap) x)) = pack_msb (gamma_code x) /\
  snd (elias_gamma_encode (bw_init cap) x) = N.of_nat (length (gamma_code x)) /\
  bw_pos (fst (elias_gamma_encode (bw_init cap) x)) = N.of_nat (length (gamma_code x)).
Proof.
  intros H.
  destruct (single_roundtrip elias_gamma_encode gamma_code elias_gamma_decode a_gamma_decode cap x []
              gamma_encode_correct gamma_decode_refines a_gamma_rt gamma_code_le_127 H) as (A & B & C & _).
  auto.
Qed.

Theorem delta_single_bytes cap x : elias_ok x ->
  bw_buffer (fst (elias_delta_encode (bw_init cap) x)) = pack_msb (delta_code x) /\
  snd (elias_delta_encode (bw_init cap) x) = N.of_nat (length (delta_code x)) /\
  bw_pos (fst (elias_delta_encode (bw_init cap) x)) = N.of_nat (length (delta_code x)).
Proof.
  intros H.
  destruct (single_roundtrip elias_delta_encode delta_code elias_delta_decode a_delta_decode cap x []
              delta_encode_correct delta_decode_refines a_delta_rt delta_code_le_127 H) as (A & B & C & _).
  auto.
Qed.

Theorem gamma_single_roundtrip cap x tail : elias_ok x ->
  fst (elias_gamma_decode (br_init (bw_buffer (fst (elias_gamma_encode (bw_init cap) x)) ++ tail)
                                   (snd (elias_gamma_encode (bw_init cap) x)))) = x.
Proof.
  intros H.
  apply (single_roundtrip elias_gamma_encode gamma_code elias_gamma_decode a_gamma_decode cap x tail
           gamma_encode_correct gamma_decode_refines a_gamma_rt gamma_code_le_127 H).
Qed.

Theorem delta_single_roundtrip cap x tail : elias_ok x ->
  fst (elias_delta_decode (br_init (bw_buffer (fst (elias_delta_encode (bw_init cap) x)) ++ tail)
                                   (snd (elias_delta_encode (bw_init cap) x)))) = x.
Proof.
  intros H.
  apply (single_roundtrip elias_delta_encode delta_code elias_delta_decode a_delta_decode cap x tail
           delta_encode_correct delta_decode_refines a_delta_rt delta_code_le_127 H).
Qed.

Theorem gamma_bits_len x : elias_ok x ->
  elias_gamma_bits x = N.of_nat (length (gamma_code x)) /\ elias_gamma_bits x = 2 * N.log2 x + 1.
Proof.
  intros H. pose proof (gamma_bits_spec x H) as E. destruct H as [H1 H2].
  rewrite E, length_gamma_code by assumption. auto.
Qed.

Theorem delta_bits_len x : elias_ok x ->
  elias_delta_bits x = N.of_nat (length (delta_code x)) /\
  elias_delta_bits x = 2 * N.log2 (N.log2 x + 1) + 1 + N.log2 x.
Proof.
  intros H. pose proof (delta_bits_spec x H) as E. destruct H as [H1 H2].
  rewrite E, length_delta_code by assumption. auto.
Qed.

(* ------------------------------------------------------------------ C13 corollary *)

Theorem gamma_decode_prefix xs cap : Forall elias_ok xs -> count_ok xs ->
  let e := elias_gamma_encode_array xs in
  elias_gamma_decode_array (ee_bytes e) (ee_totalBits e) cap = firstn cap xs.
Proof.
  intros Hok Hc. cbv zeta.
  pose proof (gamma_array_roundtrip xs [] (ee_totalBits (elias_gamma_encode_array xs)) cap Hok Hc) as RT.
  cbv zeta in RT. rewrite app_nil_r in RT. apply RT.
  unfold count_ok in Hc.
  destruct (gamma_encode_array_spec xs Hok ltac:(lia)) as (B & R & C & T & E & ER & X & L & O).
  rewrite T, R, length_pack_msb. lia.
Qed.

Theorem delta_decode_prefix xs cap : Forall elias_ok xs -> count_ok xs ->
  let e := elias_delta_encode_array xs in
  elias_delta_decode_array (ee_bytes e) (ee_totalBits e) cap = firstn cap xs.
Proof.
  intros Hok Hc. cbv zeta.
  pose proof (delta_array_roundtrip xs [] (ee_totalBits (elias_delta_encode_array xs)) cap Hok Hc) as RT.
  cbv zeta in RT. rewrite app_nil_r in RT. apply RT.
  unfold count_ok in Hc.
  destruct (delta_encode_array_spec xs Hok ltac:(lia)) as (B & R & C & T & E & ER & X & L & O).
  rewrite T, R, length_pack_msb. lia.
Qed.

(* ------------------------------------------------------------------ truncated encodings *)

Lemma firstn_repeat_le {A} (a : A) : forall k n, (k <= n)%nat -> firstn k (repeat a n) = repeat a k.
Proof.
  induction k; intros n H; [reflexivity|].
  destruct n; [lia|]. cbn [repeat firstn]. f_equal. apply IHk. lia.
Qed.

(* a proper prefix of a code never decodes to a value *)
Lemma a_gamma_proper x k : elias_ok x -> (k < length (gamma_code x))%nat ->
  fst (a_gamma_decode (firstn k (gamma_code x))) = 0.
Proof.
  intros Hok Hk. pose proof Hok as [H1 H2]. pose proof (log2_lt64 x H2) as Hn.
  pose proof (length_gamma_code x H1) as HL.
  rewrite gamma_code_shape by assumption.
  set (n := N.to_nat (N.log2 x)) in *.
  rewrite firstn_app, repeat_length.
  destruct (Nat.le_gt_cases k n) as [Hle | Hgt].
  - replace (k - n)%nat with 0%nat by lia. cbn [firstn]. rewrite app_nil_r.
    rewrite firstn_repeat_le by assumption. apply a_gamma_zeros.
  - rewrite firstn_all2 by (rewrite repeat_length; lia).
    destruct (k - n)%nat as [|m] eqn:Em; [lia|]. cbn [firstn].
    unfold a_gamma_decode. rewrite a_gamma_count_zeros by lia. rewrite N.add_0_l.
    unfold a_tail, a_has. rewrite firstn_length, length_bits_msb_n.
    replace (N.of_nat n =? 0) with false by lia.
    replace (N.of_nat n <=? N.of_nat (Nat.min m n)) with false by lia. reflexivity.
Qed.

Lemma a_delta_proper x k : elias_ok x -> (k < length (delta_code x))%nat ->
  fst (a_delta_decode (firstn k (delta_code x))) = 0.
Proof.
  intros Hok Hk. pose proof Hok as [H1 H2]. pose proof (log2_lt64 x H2) as Hn.
  assert (Hok' : elias_ok (N.log2 x + 1)) by (unfold elias_ok; lia).
  unfold delta_code in *. rewrite bits_msb_head in * by assumption. cbn [tl] in *.
  rewrite app_length, length_bits_msb_n in Hk.
  rewrite firstn_app. unfold a_delta_decode.
  destruct (Nat.lt_ge_cases k (length (gamma_code (N.log2 x + 1)))) as [Hlt | Hge].
  - replace (k - length (gamma_code (N.log2 x + 1)))%nat with 0%nat by lia.
    cbn [firstn]. rewrite app_nil_r.
    pose proof (a_gamma_proper (N.log2 x + 1) k Hok' Hlt) as Hz.
    destruct (a_gamma_decode _) as [v l1]. cbn [fst] in Hz. subst v. reflexivity.
  - rewrite firstn_all2 by assumption.
    rewrite a_gamma_rt by assumption.
    replace ((N.log2 x + 1 =? 0) || (64 <? N.log2 x + 1)) with false by lia.
    replace (N.log2 x + 1 - 1) with (N.log2 x) by lia.
    unfold a_tail, a_has. rewrite firstn_length, length_bits_msb_n.
    replace (N.log2 x =? 0) with false by lia.
    replace (N.log2 x <=? N.of_nat (Nat.min (k - length (gamma_code (N.log2 x + 1))) (N.to_nat (N.log2 x))))
      with false by lia.
    reflexivity.
Qed.

Section Truncated.
  Variable adec : list bool -> N * list bool.
  Variable code : N -> list bool.
  Hypothesis Hrt : forall x rest, elias_ok x -> adec (code x ++ rest) = (x, rest).
  Hypothesis Hne : forall x, elias_ok x -> (1 <= length (code x))%nat.
  Hypothesis Hproper : forall x k, elias_ok x -> (k < length (code x))%nat ->
    fst (adec (firstn k (code x))) = 0.

  Lemma a_loop_truncated : forall xs k cap, Forall elias_ok xs ->
    exists j, a_loop adec (firstn k (codes code xs)) cap = firstn j xs.
  Proof.
    induction xs as [|x xs IH]; intros k cap Hok.
    - exists 0%nat. cbn [codes map concat]. rewrite firstn_nil. destruct cap; reflexivity.
    - inversion Hok as [|? ? Hx Hxs]; subst.
      destruct cap as [|c]; [exists 0%nat; reflexivity|].
      cbn [codes map concat]. fold (codes code xs). rewrite firstn_app.
      destruct (Nat.lt_ge_cases k (length (code x))) as [Hlt | Hge].
      + exists 0%nat. replace (k - length (code x))%nat with 0%nat by lia.
        cbn [firstn]. rewrite app_nil_r. cbn [a_loop].
        destruct (a_has (firstn k (code x)) 1); [|reflexivity].
        specialize (Hproper x k Hx Hlt).
        destruct (adec (firstn k (code x))) as [v l']. cbn [fst] in Hproper. subst v. reflexivity.
      + rewrite firstn_all2 by assumption.
        destruct (IH (k - length (code x))%nat c Hxs) as [j Hj].
        exists (S j). cbn [a_loop firstn].
        unfold a_has. rewrite app_length. specialize (Hne x Hx).
        replace (1 <=? N.of_nat (length (code x) + length (firstn (k - length (code x)) (codes code xs))))
          with true by lia.
        rewrite Hrt by assumption.
        destruct Hx as [Hx1 Hx2]. replace (x =? 0) with false by lia.
        f_equal. exact Hj.
  Qed.
End Truncated.

Lemma bits_of_pack_msb_short bs tail (k : nat) : (k <= length bs)%nat ->
  bits_of (pack_msb bs ++ tail) 0 k = firstn k bs.
Proof.
  intros Hk.
  assert (H : bits_of (pack_msb bs ++ tail) 0 (k + (length bs - k)) = bs).
  { replace (k + (length bs - k))%nat with (length bs) by lia.
    rewrite bits_of_pack_msb by (rewrite length_pack_msb; lia).
    rewrite Nat.sub_diag. cbn [repeat]. apply app_nil_r. }
  rewrite bits_of_app in H.
  transitivity (firstn k (bits_of (pack_msb bs ++ tail) 0 k ++
                          bits_of (pack_msb bs ++ tail) (0 + N.of_nat k) (length bs - k))).
  - rewrite firstn_exact by apply length_bits_of. reflexivity.
  - rewrite H. reflexivity.
Qed.

Theorem gamma_decode_truncated xs tail srcBits cap : Forall elias_ok xs -> count_ok xs ->
  let e := elias_gamma_encode_array xs in
  srcBits <= ee_totalBits e ->
  exists k, elias_gamma_decode_array (ee_bytes e ++ tail) srcBits cap = firstn k xs.
Proof.
  intros Hok Hc. unfold count_ok in Hc. cbv zeta.
  destruct (gamma_encode_array_spec xs Hok ltac:(lia)) as (B & R & C & T & E & ER & X & L & O).
  pose proof (length_codes_le gamma_code 127 xs gamma_code_le_127 Hok) as HL.
  rewrite B, T. intros Hb.
  rewrite gamma_decode_array_abs by lia.
  rewrite bits_of_pack_msb_short by lia.
  apply a_loop_truncated; auto using a_gamma_rt, gamma_code_nonempty, a_gamma_proper.
Qed.

Theorem delta_decode_truncated xs tail srcBits cap : Forall elias_ok xs -> count_ok xs ->
  let e := elias_delta_encode_array xs in
  srcBits <= ee_totalBits e ->
  exists k, elias_delta_decode_array (ee_bytes e ++ tail) srcBits cap = firstn k xs.
Proof.
  intros Hok Hc. unfold count_ok in Hc. cbv zeta.
  destruct (delta_encode_array_spec xs Hok ltac:(lia)) as (B & R & C & T & E & ER & X & L & O).
  pose proof (length_codes_le delta_code 76 xs delta_code_le_76 Hok) as HL.
  rewrite B, T. intros Hb.
  rewrite delta_decode_array_abs by lia.
  rewrite bits_of_pack_msb_short by lia.
  apply a_loop_truncated; auto using a_delta_rt, delta_code_nonempty, a_delta_proper.
Qed.

(* ------------------------------------------------------------------ IsBeneficial *)

Lemma sum_bits_spec bits code : (forall x, elias_ok x -> bits x = N.of_nat (length (code x))) ->
  forall xs t, Forall elias_ok xs ->
  elias_sum_bits bits xs t = Some (t + N.of_nat (length (codes code xs))).
Proof.
  intros Hb. induction xs as [|x xs IH]; intros t Hok; cbn [elias_sum_bits codes map concat length].
  - f_equal. lia.
  - inversion Hok as [|? ? Hx Hxs]; subst. fold (codes code xs).
    destruct Hx as [Hx1 Hx2]. replace (x <? 1) with false by lia.
    rewrite IH by assumption. rewrite Hb by (split; assumption). rewrite app_length. f_equal. lia.
Qed.

Theorem gamma_beneficial_spec xs : Forall elias_ok xs -> count_ok xs ->
  elias_gamma_is_beneficial xs = (ee_ret (elias_gamma_encode_array xs) <? 8 * N.of_nat (length xs)).
Proof.
  intros Hok Hc. unfold count_ok in Hc.
  destruct (gamma_encode_array_spec xs Hok ltac:(lia)) as (B & R & C & T & E & ER & X & L & O).
  unfold elias_gamma_is_beneficial, elias_is_beneficial.
  rewrite (sum_bits_spec elias_gamma_bits gamma_code gamma_bits_spec xs 0 Hok).
  rewrite N.add_0_l, <- ER, E. unfold mul64. rewrite N.mod_small by lia. f_equal. lia.
Qed.

Theorem delta_beneficial_spec xs : Forall elias_ok xs -> count_ok xs ->
  elias_delta_is_beneficial xs = (ee_ret (elias_delta_encode_array xs) <? 8 * N.of_nat (length xs)).
Proof.
  intros Hok Hc. unfold count_ok in Hc.
  destruct (delta_encode_array_spec xs Hok ltac:(lia)) as (B & R & C & T & E & ER & X & L & O).
  unfold elias_delta_is_beneficial, elias_is_beneficial.
  rewrite (sum_bits_spec elias_delta_bits delta_code delta_bits_spec xs 0 Hok).
  rewrite N.add_0_l, <- ER, E. unfold mul64. rewrite N.mod_small by lia. f_equal. lia.
Qed.
