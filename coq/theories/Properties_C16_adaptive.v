(* Properties_C16_adaptive.v — property C16 (reported metadata and header accessors tell
   the truth) for the adaptive container.
   Encode / EncodeWith meta: encodingType = first byte, originalCount = number of values,
   encodedSize = bytes written = value returned — these are conjuncts of the
   C06_adaptive_* theorems, restated here for the automatic encoder.
   varintAdaptiveReadMeta / varintAdaptiveGetEncodingType on the bytes written (followed
   by anything): the type is the first byte; for FOR and PFOR the count and the size are
   exact (after fix F18 the PFOR size is found by walking the exception list instead of
   the worst-case varintPFORSize); for DELTA, DICT, BITMAP, TAGGED the header documents
   originalCount = 0 and encodedSize = 1 as "unknown" and that is what is reported. *)
Require Import VV.Base VV.PFOR VV.Dict VV.DictProofs VV.Adaptive.
Require Import VV.AdaptiveCapProofs VV.AdaptiveTheorems.
Local Open Scope N_scope.

Theorem C16_adaptive_encode_meta_truth : forall xs,
  Forall (fun x => x < 18446744073709551616) xs ->
  (1 <= length xs)%nat -> N.of_nat (length xs) < 4294967296 ->
  exists bytes m e, adp_encode xs = AEOk bytes m /\ hd 0 bytes = e /\
    am_type m = e /\ am_count m = N.of_nat (length xs) /\ am_size m = N.of_nat (length bytes) /\
    forall tl, exists pm,
      adp_decode (bytes ++ tl) (N.of_nat (length xs)) = ADOk (N.of_nat (length xs)) xs pm.
Proof. exact adp_encode_meta_truth. Qed.
Print Assumptions C16_adaptive_encode_meta_truth.

Theorem C16_adaptive_read_meta_truth : forall xs e bytes m tl,
  Forall (fun x => x < 18446744073709551616) xs -> N.of_nat (length xs) < 4294967296 ->
  e <= 5 -> adp_encode_with xs e = AEOk bytes m ->
  adp_get_encoding_type (bytes ++ tl) = e /\
  exists rm, adp_read_meta (bytes ++ tl) = POk rm /\ am_type rm = e /\
    ((e = 1 \/ e = 2) -> am_count rm = N.of_nat (length xs) /\ am_size rm = N.of_nat (length bytes)) /\
    (e <> 1 -> e <> 2 -> am_count rm = 0 /\ am_size rm = 1).
Proof. exact adp_read_meta_truth. Qed.
Print Assumptions C16_adaptive_read_meta_truth.

(* what Decode reports (return value = meta.originalCount) never exceeds the capacity, and
   on the encoder's output with maxCount = count it is the count (C06) *)
Theorem C16_adaptive_decode_count : forall src cap r stores pm,
  adp_decode src cap = ADOk r stores pm -> N.of_nat (length stores) <= cap /\ r <= cap.
Proof. exact adp_decode_cap_any. Qed.
Print Assumptions C16_adaptive_decode_count.

(* non-vacuity: a PFOR encoding with exceptions — ReadMeta's size is the 31 bytes written
   (varintPFORSize + 1 would say 36), and the documented "unknown" for DELTA *)
Example C16_adaptive_examples :
  (match adp_encode_with [1; 2; 3; 4; 5; 6; 7; 8; 9; 10; 11; 12; 13; 14; 15; 16; 17; 18; 19; 20; 1000000] 2 with
   | AEOk b m => (am_size m, match adp_read_meta b with POk rm => (am_count rm, am_size rm) | _ => (0, 0) end)
   | _ => (0, (0, 0)) end) = (31, (21, 31)) /\
  1 + pfor_size (pfor_encode_meta [1; 2; 3; 4; 5; 6; 7; 8; 9; 10; 11; 12; 13; 14; 15; 16; 17; 18; 19; 20; 1000000] 95) = 36 /\
  (match adp_encode_with [3; 4; 5] 0 with
   | AEOk b m => (am_size m, match adp_read_meta b with POk rm => (am_count rm, am_size rm) | _ => (9, 9) end)
   | _ => (0, (9, 9)) end) = (7, (0, 1)).
Proof. vm_compute. repeat split; reflexivity. Qed.
