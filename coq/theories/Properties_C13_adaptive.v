(* Properties_C13_adaptive.v — theorems are added below as they are proved *)
Require Import VV.Base VV.Adaptive.
