(* Properties_C13_adaptive.v — property C13 (decoders never write beyond the caller's
   output capacity) for varintAdaptiveDecode.  `adp_decode src maxCount = ADOk ret stores pm`:
   `stores` are the values written to output[0], output[1], ...; "no store at an index
   >= maxCount" is `length stores <= maxCount`. *)
Require Import VV.Base VV.Tagged VV.Delta VV.FOR VV.FORProofs VV.PFOR VV.Dict VV.DictProofs VV.Bitmap VV.Adaptive.
Require Import VV.AdaptiveCapProofs VV.AdaptiveTheorems.
From Coq Require Import Sorted.
Local Open Scope N_scope.

(* ANY byte string, whatever encoding its first byte names and whatever count it declares:
   at most maxCount values are stored and the value returned is at most maxCount *)
Theorem C13_adaptive_decode_cap_any_input : forall src cap r stores pm,
  adp_decode src cap = ADOk r stores pm -> N.of_nat (length stores) <= cap /\ r <= cap.
Proof. exact adp_decode_cap_any. Qed.
Print Assumptions C13_adaptive_decode_cap_any_input.

(* valid encodings x capacities 0 .. count, per forced encoding: failure (0, nothing
   stored) or a correct prefix.  DELTA, BITMAP and TAGGED return the first cap values;
   FOR, PFOR and DICT are all-or-nothing. *)
Theorem C13_adaptive_cap_delta : forall xs tl cap,
  Forall (fun x => x < 18446744073709551616) xs -> cap <= N.of_nat (length xs) ->
  exists r stores pm, adp_decode ((0 :: delta_encode_u xs) ++ tl) cap = ADOk r stores pm /\
    N.of_nat (length stores) <= cap /\
    ((r = 0 /\ stores = []) \/ (r = N.of_nat (length stores) /\ stores = firstn (N.to_nat r) xs)).
Proof. exact adp_cap_delta. Qed.
Print Assumptions C13_adaptive_cap_delta.

Theorem C13_adaptive_cap_for : forall xs m tl cap,
  Forall (fun x => x < 18446744073709551616) xs -> for_analyze xs = Some m ->
  N.of_nat (length xs) < 576460752303423488 -> cap <= N.of_nat (length xs) ->
  exists r stores pm, adp_decode ((1 :: for_bytes m xs) ++ tl) cap = ADOk r stores pm /\
    N.of_nat (length stores) <= cap /\
    ((r = 0 /\ stores = []) \/ (r = N.of_nat (length stores) /\ stores = firstn (N.to_nat r) xs)).
Proof. exact adp_cap_for. Qed.
Print Assumptions C13_adaptive_cap_for.

Theorem C13_adaptive_cap_pfor : forall xs tl cap,
  (1 <= length xs)%nat -> N.of_nat (length xs) < 4294967296 ->
  Forall (fun x => x < 18446744073709551616) xs -> cap <= N.of_nat (length xs) ->
  exists r stores pm, adp_decode ((2 :: pfor_encode_bytes xs 95) ++ tl) cap = ADOk r stores pm /\
    N.of_nat (length stores) <= cap /\
    ((r = 0 /\ stores = []) \/ (r = N.of_nat (length stores) /\ stores = firstn (N.to_nat r) xs)).
Proof. exact adp_cap_pfor. Qed.
Print Assumptions C13_adaptive_cap_pfor.

Theorem C13_adaptive_cap_dict : forall xs d tl cap,
  dict_build xs = DictBuildOk d -> Forall (fun x => x < 18446744073709551616) xs ->
  N.of_nat (length xs) < 576460752303423488 -> cap <= N.of_nat (length xs) ->
  exists r stores pm, adp_decode ((3 :: dict_bytes xs) ++ tl) cap = ADOk r stores pm /\
    N.of_nat (length stores) <= cap /\
    ((r = 0 /\ stores = []) \/ (r = N.of_nat (length stores) /\ stores = firstn (N.to_nat r) xs)).
Proof. exact adp_cap_dict. Qed.
Print Assumptions C13_adaptive_cap_dict.

Theorem C13_adaptive_cap_bitmap : forall xs tl cap,
  StronglySorted N.lt xs -> Forall (fun v => v < 65536) xs -> cap <= N.of_nat (length xs) ->
  exists r stores pm,
    adp_decode ((4 :: bm_encode (adp_bitmap_of xs)) ++ tl) cap = ADOk r stores pm /\
    N.of_nat (length stores) <= cap /\
    ((r = 0 /\ stores = []) \/ (r = N.of_nat (length stores) /\ stores = firstn (N.to_nat r) xs)).
Proof. exact adp_cap_bitmap. Qed.
Print Assumptions C13_adaptive_cap_bitmap.

Theorem C13_adaptive_cap_tagged : forall xs tl cap e, 5 <= e ->
  Forall (fun x => x < 18446744073709551616) xs ->
  N.of_nat (length xs) < 576460752303423488 -> cap <= N.of_nat (length xs) ->
  exists r stores pm, adp_decode ((e :: flat_map tagged_put64 xs) ++ tl) cap = ADOk r stores pm /\
    N.of_nat (length stores) <= cap /\
    ((r = 0 /\ stores = []) \/ (r = N.of_nat (length stores) /\ stores = firstn (N.to_nat r) xs)).
Proof. exact adp_cap_tagged. Qed.
Print Assumptions C13_adaptive_cap_tagged.

(* non-vacuity: the F10 / F11 shapes (many values, capacity 2) *)
Example C13_adaptive_examples :
  (match adp_encode_with [1000; 1001; 1002; 1003; 1004; 1005] 2 with AEOk b _ => adp_decode b 2 | _ => ADUB end)
    = ADOk 0 [] None /\
  (match adp_encode_with [21; 22; 23; 24; 25; 26] 4 with AEOk b _ => adp_decode b 2 | _ => ADUB end)
    = ADOk 2 [21; 22] None /\
  (match adp_encode_with [9; 8; 7] 0 with AEOk b _ => adp_decode b 2 | _ => ADUB end) = ADOk 2 [9; 8] None.
Proof. vm_compute. repeat split; reflexivity. Qed.
