(* CSemProofs.v — lemmas and tactics for reasoning about terms produced by
   gen/c2coq.py (coq/gen/Src_*.v) over the operations of CSem.v.

   The proofs about generated code are meant to survive harmless rewrites of
   the C source, so they do not follow the shape of the generated term:
   [c_run] unfolds every c_* operation, then repeatedly picks ANY [if] whose
   condition is closed, splits on it and discharges the impossible side with
   [lia]; what remains per path is an equation between integer expressions. *)
Require Import VV.Base VV.BaseProofs VV.CSem.
From Coq Require Import Lia ZifyBool ZifyN ZifyNat.
Local Open Scope Z_scope.
Ltac Zify.zify_post_hook ::= Z.div_mod_to_equations.

(* ---------- small facts used by the tactics ---------- *)

Definition bytes256_ : list N := map N.of_nat (seq 0 256).

Lemma b2z_eqb0 c : (b2z c =? 0) = negb c.
Proof. destruct c; reflexivity. Qed.

Definition ity_sub_tbl (a b : ity) : bool :=
  match a, b with
  | TBool, _ => true
  | TU8, (TU8 | TS16 | TU16 | TS32 | TU32 | TS64 | TU64) => true
  | TS8, (TS8 | TS16 | TS32 | TS64) => true
  | TU16, (TU16 | TS32 | TU32 | TS64 | TU64) => true
  | TS16, (TS16 | TS32 | TS64) => true
  | TU32, (TU32 | TS64 | TU64) => true
  | TS32, (TS32 | TS64) => true
  | TU64, TU64 => true
  | TS64, TS64 => true
  | _, _ => false
  end.
Lemma ity_sub_is_tbl a b : ity_sub a b = ity_sub_tbl a b.
Proof. destruct a, b; reflexivity. Qed.

Lemma upd_length m k v : length (upd m k v) = length m.
Proof. revert k. induction m as [|h t IH]; intros [|k]; cbn [upd length]; try rewrite IH; reflexivity. Qed.
Fixpoint upds (m : list N) (k : nat) (bs : list N) : list N :=
  match bs with
  | [] => m
  | b :: t => upds (upd m k b) (S k) t
  end.
Lemma upd_firstn_skipn m k v : (k < length m)%nat ->
  upd m k v = firstn k m ++ v :: skipn (S k) m.
Proof.
  revert k. induction m as [|h t IH]; intros [|k] H; cbn [upd length firstn skipn app] in *; try lia.
  - reflexivity.
  - rewrite IH by lia. reflexivity.
Qed.
Lemma skipn_skipn_add {A} a b (l : list A) : skipn a (skipn b l) = skipn (b + a) l.
Proof. revert l. induction b as [|b IH]; intro l; [reflexivity|]. destruct l; cbn [skipn Nat.add]; [destruct a; reflexivity|apply IH]. Qed.
Lemma upds_store m k bs : (k + length bs <= length m)%nat -> upds m k bs = store m k bs.
Proof.
  revert m k. induction bs as [|b t IH]; intros m k H; cbn [upds length] in *.
  - unfold store. cbn [app length]. rewrite Nat.add_0_r. symmetry. apply firstn_skipn.
  - rewrite IH by (rewrite upd_length; lia).
    unfold store. rewrite upd_firstn_skipn by lia. cbn [length].
    assert (L : length (firstn k m) = k) by (rewrite firstn_length; lia).
    replace (firstn (S k) (firstn k m ++ b :: skipn (S k) m)) with (firstn k m ++ [b]).
    2:{ rewrite firstn_app, L. replace (S k - k)%nat with 1%nat by lia.
        rewrite (firstn_all2 (n:=S k) (firstn k m)) by lia. reflexivity. }
    rewrite <- app_assoc. cbn [app]. f_equal. f_equal. f_equal.
    rewrite skipn_app, L.
    rewrite (skipn_all2 (firstn k m)) by lia. cbn [app].
    replace (S k + length t - k)%nat with (S (length t)) by lia.
    change (skipn (S (length t)) (b :: skipn (S k) m)) with (skipn (length t) (skipn (S k) m)).
    rewrite skipn_skipn_add. f_equal. lia.
Qed.

Lemma cok_pair_eq {A B} (a a' : A) (b b' : B) : a = a' -> b = b' -> COk (a, b) = COk (a', b').
Proof. intros; subst; reflexivity. Qed.

Lemma upd_eq3 m m' i i' v v' : m = m' -> i = i' -> v = v' -> upd m i v = upd m' i' v'.
Proof. intros; subst; reflexivity. Qed.

Lemma bytes_ok_nth z i : bytes_ok z -> (byte_at z i < 256)%N.
Proof. apply byte_at_lt. Qed.

(* | of fields that do not overlap is + ; & with 2^k - 1 is mod *)
Lemma zlor_add_mod0 a b k : 0 <= k -> 0 <= a -> a mod 2 ^ k = 0 -> 0 <= b < 2 ^ k -> Z.lor a b = a + b.
Proof.
  intros Hk Ha Hm Hb.
  assert (L : Z.land a b = 0).
  { apply Z.bits_inj'; intros n Hn. rewrite Z.land_spec, Z.bits_0.
    destruct (Z.lt_ge_cases n k) as [G|G].
    - replace (Z.testbit a n) with false; [reflexivity|].
      symmetry. rewrite <- (Z.mod_pow2_bits_low a k n) by lia. rewrite Hm. apply Z.bits_0.
    - replace (Z.testbit b n) with false; [apply andb_false_r|].
      symmetry. destruct (Z.eq_dec b 0) as [->|]; [apply Z.bits_0|].
      apply Z.bits_above_log2; [lia|].
      apply Z.lt_le_trans with k; [|exact G]. apply Z.log2_lt_pow2; lia. }
  rewrite <- Z.lxor_lor by exact L. symmetry. apply Z.add_nocarry_lxor. exact L.
Qed.

Lemma zland_ones_l k a : 0 <= k -> Z.land (2 ^ k - 1) a = a mod 2 ^ k.
Proof. intro. rewrite Z.land_comm, <- Z.land_ones by assumption. rewrite Z.ones_equiv, Z.sub_1_r. reflexivity. Qed.
Lemma zland_ones_r k a : 0 <= k -> Z.land a (2 ^ k - 1) = a mod 2 ^ k.
Proof. intro. rewrite <- Z.land_ones by assumption. rewrite Z.ones_equiv, Z.sub_1_r. reflexivity. Qed.

Lemma N2Z_lor a b : Z.of_N (N.lor a b) = Z.lor (Z.of_N a) (Z.of_N b).
Proof.
  apply Z.bits_inj'; intros n Hn.
  rewrite Z.lor_spec, !Z.testbit_of_N' by assumption. apply N.lor_spec.
Qed.
Lemma N2Z_land a b : Z.of_N (N.land a b) = Z.land (Z.of_N a) (Z.of_N b).
Proof.
  apply Z.bits_inj'; intros n Hn.
  rewrite Z.land_spec, !Z.testbit_of_N' by assumption. apply N.land_spec.
Qed.

(* ---------- loops ---------- *)

Lemma c_while_S {S R} f (step : S -> cres (lstep S R)) s :
  c_while (Datatypes.S f) step s =
  bind (step s) (fun r => match r with LNext s' => c_while f step s' | _ => COk r end).
Proof. reflexivity. Qed.

(* fuel >= k: peel k successors off the fuel *)
Ltac peel_fuel f k :=
  lazymatch k with
  | O => idtac
  | Datatypes.S ?k' => destruct f as [|f]; [exfalso; lia|]; peel_fuel f k'
  end.

(* the continuation bit of a byte, arithmetically (swept over the 256 bytes) *)
Lemma zland_128 b : 0 <= b < 256 -> Z.land b 128 = b / 128 * 128.
Proof.
  intro H. assert (E : forallb (fun n => Z.land (Z.of_N n) 128 =? Z.of_N n / 128 * 128) bytes256_ = true)
    by (vm_compute; reflexivity).
  rewrite forallb_forall in E. specialize (E (Z.to_N b)).
  rewrite Z2N.id in E by lia. apply Z.eqb_eq. apply E.
  apply in_map_iff. exists (Z.to_nat b). split; [lia|]. apply in_seq. lia.
Qed.

(* the top byte of a 64-bit value, arithmetically *)
Lemma zland_hi8 v : 0 <= v < 18446744073709551616 -> Z.land v 18374686479671623680 = v / 2 ^ 56 * 2 ^ 56.
Proof.
  intro H. change 18374686479671623680 with (Z.shiftl (Z.ones 8) 56).
  rewrite <- Z.shiftl_mul_pow2, <- Z.shiftr_div_pow2 by lia.
  apply Z.bits_inj'; intros n Hn. rewrite Z.land_spec.
  destruct (Z.lt_ge_cases n 56) as [L|G].
  - rewrite !Z.shiftl_spec_low by lia. apply andb_false_r.
  - rewrite !Z.shiftl_spec by lia. rewrite Z.shiftr_spec by lia. replace (n - 56 + 56) with n by lia.
    rewrite Z.testbit_ones by lia.
    destruct (Z.lt_ge_cases n 64) as [L|G'].
    + replace ((0 <=? n - 56) && (n - 56 <? 8)) with true by lia. apply andb_true_r.
    + replace (Z.testbit v n) with false; [reflexivity|]. symmetry.
      destruct (Z.eq_dec v 0) as [->|]; [apply Z.bits_0|].
      apply Z.bits_above_log2; [lia|]. apply Z.lt_le_trans with 64; [|exact G']. apply Z.log2_lt_pow2; lia.
Qed.

(* bit 7 of (x << k) | y with k >= 8 is bit 7 of y *)
Lemma zland_lor_shl_128 x y k m : 8 <= k -> 0 <= x -> 0 < m ->
  Z.land (Z.lor ((x * 2 ^ k) mod 2 ^ m) y) 128 = Z.land y 128.
Proof.
  intros Hk Hx Hm. rewrite Z.land_lor_distr_l.
  replace (Z.land ((x * 2 ^ k) mod 2 ^ m) 128) with 0; [reflexivity|]. symmetry.
  apply Z.bits_inj'; intros n Hn. rewrite Z.land_spec, Z.bits_0.
  destruct (Z.eq_dec n 7) as [->|N7].
  - destruct (Z.lt_ge_cases 7 m).
    + rewrite Z.mod_pow2_bits_low by lia. rewrite Z.mul_pow2_bits_low by lia. reflexivity.
    + rewrite Z.mod_pow2_bits_high by lia. reflexivity.
  - replace (Z.testbit 128 n) with false; [apply andb_false_r|]. symmetry.
    change 128 with (2 ^ 7). apply Z.pow2_bits_false. lia.
Qed.

(* ---------- the evaluation tactic ---------- *)

Ltac c_unfold :=
  unfold c_cond, c_land, c_lor, c_lnot, c_lt, c_le, c_gt, c_ge, c_eq, c_ne,
    c_add, c_sub, c_mul, c_neg, c_div, c_rem, c_shl, c_shr, c_and, c_or, c_xor, c_not,
    c_padd, c_psub, c_cast, c_load, c_store, c_aload, c_astore, c_anew, c_view, c_unview,
    c_cell_read, c_overflow, arith, lift1, lift2, bind;
  rewrite ?ity_sub_is_tbl;
  unfold ity_sub_tbl, wrap, in_range, ity_signed, ity_bits, ity_mod, ity_min, ity_max.

(* does the term mention a variable of the context? *)
Ltac is_open t := match t with context [?v] => is_var v end.

(* Z.to_nat of a closed index -> the nat numeral *)
Ltac c_norm_idx :=
  repeat match goal with
  | |- context [Z.to_nat ?k] =>
      tryif is_open k then fail else
        (let v := eval vm_compute in (Z.to_nat k) in change (Z.to_nat k) with v)
  end.

Lemma aupd_length m k v : length (aupd m k v) = length m.
Proof. revert k. induction m as [|h t IH]; intros [|k]; cbn [aupd length]; try rewrite IH; reflexivity. Qed.

Ltac c_simp := cbv beta iota; cbn [fst snd]; rewrite ?b2z_eqb0, ?upd_length, ?aupd_length; c_norm_idx; cbn [aupd anth repeat].

(* decide one [if] whose condition is closed under binders:
   - a condition without variables is computed;
   - otherwise it is proved true, or proved false, by lia from the hypotheses
     (the fact is then a consequence of the context and is not kept);
   - otherwise both cases are considered and the case is recorded. *)
Ltac c_step :=
  c_simp;
  match goal with
  | |- context [if ?b then _ else _] =>
      (* innermost first: a condition that itself contains an [if] is left for later *)
      lazymatch b with context [if _ then _ else _] => fail | _ => idtac end;
      first
        [ tryif is_open b then fail else
            (let v := eval vm_compute in b in
             lazymatch v with true => idtac | false => idtac end;
             change b with v)
        | let E := fresh "E" in assert (E : b = true) by lia; rewrite E; clear E
        | let E := fresh "E" in assert (E : b = false) by lia; rewrite E; clear E
        | let E := fresh "E" in destruct b eqn:E ]
  end.

Ltac c_run := c_unfold; repeat c_step; c_simp.

(* the same decision for the [if]s of a hypothesis *)
Ltac c_decide_in H :=
  repeat (cbv beta iota in H;
    match type of H with
    | context [if ?b then _ else _] =>
        first [ let E := fresh "E" in assert (E : b = true) by lia; rewrite E in H; clear E
              | let E := fresh "E" in assert (E : b = false) by lia; rewrite E in H; clear E ]
    end); cbv beta iota in H.

(* bounds of every byte read from a well-formed byte list *)
Ltac byte_bounds :=
  repeat match goal with
  | H : bytes_ok ?z |- context [byte_at ?z ?i] =>
      lazymatch goal with
      | _ : (byte_at z i < 256)%N |- _ => fail
      | _ => pose proof (bytes_ok_nth z i H)
      end
  end.

(* Z.lor of disjoint fields -> +, innermost first (the side conditions of an
   outer lor are not provable by lia while an inner one is still there) *)
Lemma zlor_add_mod0' a b k : 0 <= k -> 0 <= b -> b mod 2 ^ k = 0 -> 0 <= a < 2 ^ k -> Z.lor a b = a + b.
Proof. intros. rewrite Z.lor_comm, Z.add_comm. apply zlor_add_mod0 with k; assumption. Qed.

Ltac lor_try a b k :=
  first [ rewrite (zlor_add_mod0 a b k) by lia | rewrite (zlor_add_mod0' a b k) by lia ].

(* Z.lor of disjoint fields -> +, innermost first (the side conditions of an
   outer lor are not provable by lia while an inner one is still there) *)
Ltac lor_to_add :=
  repeat match goal with
  | |- context [Z.lor ?a ?b] =>
      first [ rewrite (zlor_add_mod0 a b 8) by lia
            | rewrite (zlor_add_mod0 a b 16) by lia
            | rewrite (zlor_add_mod0 a b 24) by lia
            | rewrite (zlor_add_mod0 a b 32) by lia
            | rewrite (zlor_add_mod0 a b 40) by lia
            | rewrite (zlor_add_mod0 a b 48) by lia
            | rewrite (zlor_add_mod0 a b 56) by lia ]
  end.

(* the same for 7-bit groups, either operand being the high part *)
Ltac lor_to_add7 :=
  repeat match goal with
  | |- context [Z.lor ?a ?b] =>
      first [ lor_try a b 7 | lor_try a b 14 | lor_try a b 21 | lor_try a b 28
            | lor_try a b 35 | lor_try a b 42 | lor_try a b 49 | lor_try a b 56 | lor_try a b 63 ]
  end.

(* Z.of_N pushed to the leaves of + * mod ^ lor land (the hand models are written over N) *)
Ltac n2z_push :=
  repeat (progress (rewrite ?N2Z.inj_add, ?N2Z.inj_mul, ?N2Z.inj_mod, ?N2Z.inj_div, ?N2Z.inj_pow, ?N2Z_lor, ?N2Z_land));
  cbn [Z.of_N].

(* closed arithmetic subterms (casts of literals, offsets) -> numerals *)
Ltac closed_eval :=
  repeat match goal with
  | |- context [?a mod ?b] =>
      tryif is_open (a mod b) then fail else (let v := eval vm_compute in (a mod b) in change (a mod b) with v)
  | |- context [?a - ?b] =>
      tryif is_open (a - b) then fail else (let v := eval vm_compute in (a - b) in change (a - b) with v)
  | |- context [?a + ?b] =>
      tryif is_open (a + b) then fail else (let v := eval vm_compute in (a + b) in change (a + b) with v)
  end.

(* Z.land with a mask 2^k - 1 -> mod *)
Lemma zland_mask_l k m a : 0 <= k -> m = 2 ^ k - 1 -> Z.land m a = a mod 2 ^ k.
Proof. intros Hk ->. apply zland_ones_l. exact Hk. Qed.
Lemma zland_mask_r k m a : 0 <= k -> m = 2 ^ k - 1 -> Z.land a m = a mod 2 ^ k.
Proof. intros Hk ->. apply zland_ones_r. exact Hk. Qed.
Ltac land_to_mod :=
  repeat match goal with
  | |- context [Z.land ?a ?b] =>
      first
        [ tryif is_open b then fail else
            (let k := eval vm_compute in (Z.log2 (b + 1)) in
             rewrite (zland_mask_r k b a) by (try lia; vm_compute; reflexivity))
        | tryif is_open a then fail else
            (let k := eval vm_compute in (Z.log2 (a + 1)) in
             rewrite (zland_mask_l k a b) by (try lia; vm_compute; reflexivity)) ]
  end.

(* ---------- decidable equality of results, for finite sweeps ---------- *)

Definition cres_eqb {A} (eqb : A -> A -> bool) (x y : cres A) : bool :=
  match x, y with
  | COk a, COk b => eqb a b
  | _, _ => false
  end.
Lemma cres_eqb_ok {A} (eqb : A -> A -> bool) (x : cres A) (b : A) :
  (forall u v, eqb u v = true -> u = v) -> cres_eqb eqb x (COk b) = true -> x = COk b.
Proof. intros H E. destruct x; cbn in E; try discriminate. f_equal. apply H. exact E. Qed.

Definition bytes256 : list N := map N.of_nat (seq 0 256).
Lemma in_bytes256 b : (b < 256)%N -> In b bytes256.
Proof.
  intro H. unfold bytes256. apply in_map_iff. exists (N.to_nat b). split; [lia|].
  apply in_seq. lia.
Qed.
Lemma byte_sweep (P : N -> bool) : forallb P bytes256 = true -> forall b, (b < 256)%N -> P b = true.
Proof. intros H b Hb. rewrite forallb_forall in H. apply H. apply in_bytes256. exact Hb. Qed.
