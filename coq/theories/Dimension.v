(* Dimension.v — Gallina model of /repo/src/varintDimension.{c,h}:
   varintDimensionPack / Unpack (+ varintDimensionUnpack_), the
   VARINT_DIMENSION_PAIR_* macros, varintDimensionPairDimension / Encode /
   Decode, getEntryByteOffset, the entry accessors (unsigned 1-8 bytes, float,
   double, half as raw 4/8/2-byte stores), _bitOffsets and the bit accessors.
   The three external-varint helpers used by that file
   (varintExternalUnsignedEncoding, varintExternalPutFixedWidth,
   varintExternalGet; little-endian host branch) are modelled here as
   `ext_width`, `dim_ext_put_fixed`, `dim_ext_get`.

   One definition per C function / macro, same case structure.  size_t and
   uint64_t are 64 bits (LP64); `mul64`/`add64` are written exactly where the
   C arithmetic wraps.  varintWidth and varintDimensionPair are enums whose
   values are all non-negative, so gcc/clang give them type `unsigned int`:
   PAIR_PAIR is evaluated in 32 bits (`shl32`, `sub32`).

   Memory: a matrix is a `list N` of bytes (header followed by the cells).
   Reads and writes at computed offsets return None when they leave the list
   (an out-of-bounds access in C).  Widths for which the C reaches
   `assert(NULL); __builtin_unreachable()` or copies past an 8-byte object
   (encoding 0 or > 8) are None as well.

   This models the code after the `fix:` commits for F26 (column width mask
   0x07) and F27 (SetBit clears before it sets).

   The float <-> half conversion (F16C / NEON instruction) is hardware and is
   not modelled: the half accessors take / return the 16-bit pattern, the
   float and double accessors the 32 / 64-bit pattern. *)
Require Import VV.Base.
Local Open Scope N_scope.

(* ------------------------------------------------------------------ *)
(* external varint helpers (varintExternal.{c,h}, little-endian host) *)

(* varintExternalPutFixedWidth(p, v, encoding): bytes written *)
Definition dim_ext_put_fixed (v w : N) : option (list N) :=
  if (1 <=? w) && (w <=? 8) then Some (le_bytes (N.to_nat w) v) else None.

(* bytes [off, off+w) of a buffer, None if they are not all inside *)
Definition rd_bytes (buf : list N) (off w : N) : option (list N) :=
  if off + w <=? N.of_nat (length buf)
  then Some (firstn (N.to_nat w) (skipn (N.to_nat off) buf)) else None.

(* overwrite bytes at off, None if they are not all inside *)
Definition wr_bytes (buf : list N) (off : N) (bs : list N) : option (list N) :=
  if off + N.of_nat (length bs) <=? N.of_nat (length buf)
  then Some (store buf (N.to_nat off) bs) else None.

(* varintExternalGet(p + off, encoding) *)
Definition dim_ext_get (buf : list N) (off w : N) : option N :=
  if (1 <=? w) && (w <=? 8) then
    match rd_bytes buf off w with Some bs => Some (of_le bs) | None => None end
  else None.

(* ------------------------------------------------------------------ *)
(* Dimension packing: (row, col) as one integer                       *)

Inductive pack_res : Type :=
| PackOk (packed dimension : N)   (* return true, *result, *dimension *)
| PackFalse                       (* return false *)
| PackFuel.                       (* model artefact: loop fuel exhausted *)

(* VARINT_DIMENSION_PACKED_TO_BITS *)
Definition packed_to_bits (d : N) : N := d * 4.

(* the while loop of varintDimensionPack; d <= 8 whenever the shift is
   evaluated, so 1ULL << bits does not overflow *)
Fixpoint dim_pack_loop (fuel : nat) (maxc d : N) : option (option N) :=
  match fuel with
  | O => None
  | S f =>
      if 2 ^ packed_to_bits d <=? maxc then
        let d' := d + 1 in
        if 8 <? d' then Some None else dim_pack_loop f maxc d'
      else Some (Some d)
  end.

(* varintDimensionPack *)
Definition dim_pack (row col : N) : pack_res :=
  let maxc := if col <? row then row else col in
  match dim_pack_loop 9 maxc 1 with
  | None => PackFuel
  | Some None => PackFalse
  | Some (Some d) => PackOk (N.lor (shl64 row (packed_to_bits d)) col) d
  end.

(* varintDimensionUnpack / varintDimensionUnpack_ : (rows, cols).  A shift
   count of 64 or more is undefined: None. *)
Definition dim_unpack (packed d : N) : option (N * N) :=
  let bits := packed_to_bits d in
  if bits <? 64 then
    Some (N.shiftr packed bits,
          N.land packed (N.ldiff 18446744073709551615 (shl64 18446744073709551615 bits)))
  else None.

(* ------------------------------------------------------------------ *)
(* Dimension pairs                                                    *)

Definition sub32 (x y : N) : N := (x + 4294967296 - y mod 4294967296) mod 4294967296.

(* VARINT_DIMENSION_PAIR_WIDTH_ROW_COUNT / _COL_COUNT / _IS_SPARSE *)
Definition pair_row_count (dim : N) : N := N.shiftr dim 4.
Definition pair_col_count (dim : N) : N := N.land (N.shiftr dim 1) 7 + 1.
Definition pair_is_sparse (dim : N) : N := N.land dim 1.

(* VARINT_DIMENSION_PAIR_PAIR(x, y, sparse), unsigned int arithmetic *)
Definition pair_pair (x y sparse : N) : N :=
  N.lor (N.lor (shl32 x 4) (shl32 (sub32 y 1) 1)) sparse.

(* VARINT_DIMENSION_PAIR_BYTE_LENGTH *)
Definition pair_byte_length (dim : N) : N := pair_row_count dim + pair_col_count dim.

(* varintDimensionPairDimension *)
Definition pair_dimension (rows cols : N) : N :=
  let wr := if rows =? 0 then 0 else N.of_nat (ext_width rows) in
  let wc := if cols =? 0 then 0 else N.of_nat (ext_width cols) in
  pair_pair wr wc 0.

(* varintDimensionPairEncode: (dimension, header bytes written at dst) *)
Definition pair_encode (row col : N) : option (N * list N) :=
  let dim := pair_dimension row col in
  let wr := pair_row_count dim in
  let wc := pair_col_count dim in
  match (if wr =? 0 then Some [] else dim_ext_put_fixed row wr), dim_ext_put_fixed col wc with
  | Some br, Some bc => Some (dim, br ++ bc)
  | _, _ => None
  end.

(* varintDimensionPairDecode: (x, y) *)
Definition pair_decode (buf : list N) (dim : N) : option (N * N) :=
  let wr := pair_row_count dim in
  let wc := pair_col_count dim in
  match (if wr =? 0 then Some 0 else dim_ext_get buf 0 wr), dim_ext_get buf wr wc with
  | Some x, Some y => Some (x, y)
  | _, _ => None
  end.

(* getEntryByteOffset *)
Definition entry_offset (buf : list N) (row col w dim : N) : option N :=
  let start := u8 (pair_byte_length dim) in
  if row =? 0 then Some (add64 start (mul64 col w))
  else match pair_decode buf dim with
       | Some (_, cols) => Some (add64 start (mul64 (add64 (mul64 row cols) col) w))
       | None => None
       end.

(* varintDimensionPairEntryGetUnsigned *)
Definition entry_get_unsigned (buf : list N) (row col w dim : N) : option N :=
  match entry_offset buf row col w dim with
  | Some off => dim_ext_get buf off w
  | None => None
  end.

(* varintDimensionPairEntrySetUnsigned *)
Definition entry_set_unsigned (buf : list N) (row col v w dim : N) : option (list N) :=
  match entry_offset buf row col w dim, dim_ext_put_fixed v w with
  | Some off, Some bs => wr_bytes buf off bs
  | _, _ => None
  end.

(* memcpy of a k-byte object with bit pattern `bits` to / from the cell *)
Definition entry_set_raw (k : N) (buf : list N) (row col bits dim : N) : option (list N) :=
  match entry_offset buf row col k dim with
  | Some off => wr_bytes buf off (le_bytes (N.to_nat k) bits)
  | None => None
  end.
Definition entry_get_raw (k : N) (buf : list N) (row col dim : N) : option N :=
  match entry_offset buf row col k dim with
  | Some off => match rd_bytes buf off k with Some bs => Some (of_le bs) | None => None end
  | None => None
  end.

(* varintDimensionPairEntrySetFloat / GetFloat : sizeof(float) = 4 *)
Definition entry_set_float := entry_set_raw 4.
Definition entry_get_float := entry_get_raw 4.
(* varintDimensionPairEntrySetDouble / GetDouble : sizeof(double) = 8 *)
Definition entry_set_double := entry_set_raw 8.
Definition entry_get_double := entry_get_raw 8.
(* varintDimensionPairEntrySetFloatHalf / GetFloatHalf : the stored object
   is the uint16_t produced by the hardware conversion *)
Definition entry_set_half := entry_set_raw 2.
Definition entry_get_half := entry_get_raw 2.

(* _bitOffsets: (offsetByte, offsetBit) *)
Definition bit_offsets (buf : list N) (row col dim : N) : option (N * N) :=
  let wr := pair_row_count dim in
  let wc := pair_col_count dim in
  let meta := u8 (wr + wc) in
  let total :=
    if row =? 0 then Some col
    else match dim_ext_get buf wr wc with
         | Some cols => Some (add64 (mul64 row cols) col)
         | None => None
         end in
  match total with
  | Some t => Some (add64 meta (t / 8), t mod 8)
  | None => None
  end.

Definition rd_byte (buf : list N) (off : N) : option N :=
  match rd_bytes buf off 1 with Some bs => Some (of_le bs) | None => None end.

(* varintDimensionPairEntryGetBit *)
Definition entry_get_bit (buf : list N) (row col dim : N) : option bool :=
  match bit_offsets buf row col dim with
  | Some (ob, obit) =>
      match rd_byte buf ob with
      | Some b => Some (N.land (N.shiftr b obit) 1 =? 1)
      | None => None
      end
  | None => None
  end.

(* varintDimensionPairEntrySetBit:
   dst[ob] = (uint8_t)((dst[ob] & ~(1 << obit)) | (setBit << obit)) *)
Definition entry_set_bit (buf : list N) (row col : N) (setbit : bool) (dim : N) : option (list N) :=
  match bit_offsets buf row col dim with
  | Some (ob, obit) =>
      match rd_byte buf ob with
      | Some b =>
          wr_bytes buf ob [u8 (N.lor (N.ldiff b (N.shiftl 1 obit))
                                     (N.shiftl (if setbit then 1 else 0) obit))]
      | None => None
      end
  | None => None
  end.

(* varintDimensionPairEntryToggleBit: (new buffer, previous value) *)
Definition entry_toggle_bit (buf : list N) (row col dim : N) : option (list N * bool) :=
  match bit_offsets buf row col dim with
  | Some (ob, obit) =>
      match rd_byte buf ob with
      | Some b =>
          match wr_bytes buf ob [u8 (N.lxor b (N.shiftl 1 obit))] with
          | Some buf' => Some (buf', N.land (N.shiftr b obit) 1 =? 1)
          | None => None
          end
      | None => None
      end
  | None => None
  end.

(* EXTRACT: dim_pack dim_unpack pair_row_count pair_col_count pair_is_sparse pair_pair
   pair_byte_length pair_dimension pair_encode pair_decode entry_offset
   entry_get_unsigned entry_set_unsigned entry_set_float entry_get_float
   entry_set_double entry_get_double entry_set_half entry_get_half
   entry_get_bit entry_set_bit entry_toggle_bit *)
