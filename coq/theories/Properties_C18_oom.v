(* Properties_C18_oom.v — property C18: a failed allocation is reported, never a
   crash, leak or silent corruption.  Statements only; proofs are `exact`s of
   OomTheorems.v / OomProofs.v.

   `arun_plan plan p` runs the allocation skeleton p when `plan i = true` means
   "the i-th allocation attempted by the call returns NULL" (ANY subset of the
   allocations, not only single failures); `oom_val` is the outcome, `oom_live`
   the number of blocks allocated and not freed by the call.  Each theorem says:
   the outcome is the API's failure indication with nothing live, or the
   correct result with exactly the blocks handed to the caller (0: in-place and
   transient calls, 1: a decoded array, 2: struct + container of an object).
   The skeletons mirror the C sources site by site (Oom.v) and are tied to the
   code on every run by the fault-injection correspondence (checks/parts/oom.py). *)
Require Import VV.Base VV.Oom VV.OomProofs VV.OomTheorems.
From Coq Require Import ZArith List Bool.
Import ListNotations.

(* varintDictCreate: NULL, or a dictionary of two blocks *)
Theorem C18_dict_create_alloc_safe : forall (plan : nat -> bool),
  let r := arun_plan plan oom_dict_create_skel in
  (oom_val r = OomFail /\ oom_live r = 0%Z) \/ (oom_val r = OomOkCorrect /\ oom_live r = 2%Z).
Proof. exact oom_thm_dict_create. Qed.
Print Assumptions C18_dict_create_alloc_safe.

(* varintDictBuild on an existing dictionary: -1 with nothing new live, or 0 *)
Theorem C18_dict_build_alloc_safe : forall (plan : nat -> bool) (grow : bool),
  let r := arun_plan plan (oom_dict_build_skel grow) in
  (oom_val r = OomFail /\ oom_live r = 0%Z) \/ (oom_val r = OomOkCorrect /\ oom_live r = 0%Z).
Proof. exact oom_thm_dict_build. Qed.
Print Assumptions C18_dict_build_alloc_safe.

(* varintDictEncode *)
Theorem C18_dict_encode_alloc_safe : forall (plan : nat -> bool) (grow : bool),
  let r := arun_plan plan (oom_dict_encode_skel grow) in
  (oom_val r = OomFail /\ oom_live r = 0%Z) \/ (oom_val r = OomOkCorrect /\ oom_live r = 0%Z).
Proof. exact oom_thm_dict_encode. Qed.
Print Assumptions C18_dict_encode_alloc_safe.

(* varintDictEncodedSize *)
Theorem C18_dict_size_alloc_safe : forall (plan : nat -> bool) (grow : bool),
  let r := arun_plan plan (oom_dict_size_skel grow) in
  (oom_val r = OomFail /\ oom_live r = 0%Z) \/ (oom_val r = OomOkCorrect /\ oom_live r = 0%Z).
Proof. exact oom_thm_dict_size. Qed.
Print Assumptions C18_dict_size_alloc_safe.

(* varintDictGetStats *)
Theorem C18_dict_stats_alloc_safe : forall (plan : nat -> bool) (grow : bool),
  let r := arun_plan plan (oom_dict_stats_skel grow) in
  (oom_val r = OomFail /\ oom_live r = 0%Z) \/ (oom_val r = OomOkCorrect /\ oom_live r = 0%Z).
Proof. exact oom_thm_dict_stats. Qed.
Print Assumptions C18_dict_stats_alloc_safe.

(* varintDictCompressionRatio (EncodedSize behind it; 0.0f = failure) *)
Theorem C18_dict_ratio_alloc_safe : forall (plan : nat -> bool) (grow : bool),
  let r := arun_plan plan (oom_dict_ratio_skel grow) in
  (oom_val r = OomFail /\ oom_live r = 0%Z) \/ (oom_val r = OomOkCorrect /\ oom_live r = 0%Z).
Proof. exact oom_thm_dict_ratio. Qed.
Print Assumptions C18_dict_ratio_alloc_safe.

(* varintDictDecode: NULL, or the output array (one block owned by the caller) *)
Theorem C18_dict_decode_alloc_safe : forall (plan : nat -> bool),
  let r := arun_plan plan oom_dict_decode_skel in
  (oom_val r = OomFail /\ oom_live r = 0%Z) \/ (oom_val r = OomOkCorrect /\ oom_live r = 1%Z).
Proof. exact oom_thm_dict_decode. Qed.
Print Assumptions C18_dict_decode_alloc_safe.

(* varintDictDecodeInto *)
Theorem C18_dict_decode_into_alloc_safe : forall (plan : nat -> bool),
  let r := arun_plan plan oom_dict_decode_into_skel in
  (oom_val r = OomFail /\ oom_live r = 0%Z) \/ (oom_val r = OomOkCorrect /\ oom_live r = 0%Z).
Proof. exact oom_thm_dict_decode_into. Qed.
Print Assumptions C18_dict_decode_into_alloc_safe.

(* varintPFORComputeThreshold (failure = zeroed metadata) *)
Theorem C18_pfor_threshold_alloc_safe : forall (plan : nat -> bool) (nonempty : bool),
  let r := arun_plan plan (oom_pfor_threshold_skel nonempty) in
  (oom_val r = OomFail /\ oom_live r = 0%Z) \/ (oom_val r = OomOkCorrect /\ oom_live r = 0%Z).
Proof. exact oom_thm_pfor_threshold. Qed.
Print Assumptions C18_pfor_threshold_alloc_safe.

(* varintPFOREncode *)
Theorem C18_pfor_encode_alloc_safe : forall (plan : nat -> bool) (nonempty has_exc : bool),
  let r := arun_plan plan (oom_pfor_encode_skel nonempty has_exc) in
  (oom_val r = OomFail /\ oom_live r = 0%Z) \/ (oom_val r = OomOkCorrect /\ oom_live r = 0%Z).
Proof. exact oom_thm_pfor_encode. Qed.
Print Assumptions C18_pfor_encode_alloc_safe.

(* varintFloatEncode (count > 0): four allocations attempted, tested together *)
Theorem C18_float_encode_alloc_safe : forall (plan : nat -> bool),
  let r := arun_plan plan oom_float_encode_skel in
  (oom_val r = OomFail /\ oom_live r = 0%Z) \/ (oom_val r = OomOkCorrect /\ oom_live r = 0%Z).
Proof. exact oom_thm_float_encode. Qed.
Print Assumptions C18_float_encode_alloc_safe.

(* varintFloatEncodeAuto (count > 0): Encode at the selected precision *)
Theorem C18_float_encode_auto_alloc_safe : forall (plan : nat -> bool),
  let r := arun_plan plan oom_float_encode_auto_skel in
  (oom_val r = OomFail /\ oom_live r = 0%Z) \/ (oom_val r = OomOkCorrect /\ oom_live r = 0%Z).
Proof. exact oom_thm_float_encode_auto. Qed.
Print Assumptions C18_float_encode_auto_alloc_safe.

(* varintFloatDecode (count > 0): 4 + 1 *)
Theorem C18_float_decode_alloc_safe : forall (plan : nat -> bool) (has_normal : bool),
  let r := arun_plan plan (oom_float_decode_skel has_normal) in
  (oom_val r = OomFail /\ oom_live r = 0%Z) \/ (oom_val r = OomOkCorrect /\ oom_live r = 0%Z).
Proof. exact oom_thm_float_decode. Qed.
Print Assumptions C18_float_decode_alloc_safe.

(* varintAdaptiveCountUnique / varintAdaptiveAnalyze *)
Theorem C18_adp_unique_alloc_safe : forall (plan : nat -> bool) (two_or_more exact : bool),
  let r := arun_plan plan (oom_adp_unique_skel two_or_more exact) in
  (oom_val r = OomFail /\ oom_live r = 0%Z) \/ (oom_val r = OomOkCorrect /\ oom_live r = 0%Z).
Proof. exact oom_thm_adp_unique. Qed.
Print Assumptions C18_adp_unique_alloc_safe.

(* varintAdaptiveEncodeWith, every encoding type (BITMAP only on input it can represent) *)
Theorem C18_adp_encode_with_alloc_safe : forall (plan : nat -> bool) (t : N) (f : oom_adp_facts),
  (t = 4%N -> oaf_bm_valid f = true) ->
  let r := arun_plan plan (oom_adp_encode_with_skel t f) in
  (oom_val r = OomFail /\ oom_live r = 0%Z) \/ (oom_val r = OomOkCorrect /\ oom_live r = 0%Z).
Proof. exact oom_thm_adp_encode_with. Qed.
Print Assumptions C18_adp_encode_with_alloc_safe.

(* varintAdaptiveDecode of a well-formed stream of type t *)
Theorem C18_adp_decode_alloc_safe : forall (plan : nat -> bool) (t : N),
  let r := arun_plan plan (oom_adp_decode_skel t) in
  (oom_val r = OomFail /\ oom_live r = 0%Z) \/ (oom_val r = OomOkCorrect /\ oom_live r = 0%Z).
Proof. exact oom_thm_adp_decode. Qed.
Print Assumptions C18_adp_decode_alloc_safe.

(* varintBitmapCreate *)
Theorem C18_bm_create_alloc_safe : forall (plan : nat -> bool),
  let r := arun_plan plan oom_bm_create_skel in
  (oom_val r = OomFail /\ oom_live r = 0%Z) \/ (oom_val r = OomOkCorrect /\ oom_live r = 2%Z).
Proof. exact oom_thm_bm_create. Qed.
Print Assumptions C18_bm_create_alloc_safe.

(* varintBitmapClone (any container type) *)
Theorem C18_bm_clone_alloc_safe : forall (plan : nat -> bool),
  let r := arun_plan plan oom_bm_clone_skel in
  (oom_val r = OomFail /\ oom_live r = 0%Z) \/ (oom_val r = OomOkCorrect /\ oom_live r = 2%Z).
Proof. exact oom_thm_bm_clone. Qed.
Print Assumptions C18_bm_clone_alloc_safe.

(* varintBitmapDecode of a well-formed buffer *)
Theorem C18_bm_decode_alloc_safe : forall (plan : nat -> bool),
  let r := arun_plan plan oom_bm_decode_skel in
  (oom_val r = OomFail /\ oom_live r = 0%Z) \/ (oom_val r = OomOkCorrect /\ oom_live r = 2%Z).
Proof. exact oom_thm_bm_decode. Qed.
Print Assumptions C18_bm_decode_alloc_safe.

(* varintBitmapAdd in every container state: growth, array->bitmap at 4096, runs->array|bitmap *)
Theorem C18_bm_add_alloc_safe : forall (plan : nat -> bool) (st : oom_bst) (present : bool),
  let r := arun_plan plan (oom_bm_add_skel st present) in
  (oom_val r = OomFail /\ oom_live r = 0%Z) \/ (oom_val r = OomOkCorrect /\ oom_live r = 0%Z).
Proof. exact oom_thm_bm_add. Qed.
Print Assumptions C18_bm_add_alloc_safe.

(* varintBitmapRemove: bitmap->array below 4096 (failure ignored, still correct), runs->array|bitmap *)
Theorem C18_bm_remove_alloc_safe : forall (plan : nat -> bool) (st : oom_bst) (present : bool),
  let r := arun_plan plan (oom_bm_remove_skel st present) in
  (oom_val r = OomFail /\ oom_live r = 0%Z) \/ (oom_val r = OomOkCorrect /\ oom_live r = 0%Z).
Proof. exact oom_thm_bm_remove. Qed.
Print Assumptions C18_bm_remove_alloc_safe.

(* varintBitmapAddMany, any number of values *)
Theorem C18_bm_add_many_alloc_safe : forall (plan : nat -> bool) (st : oom_bst) (flags : list bool),
  let r := arun_plan plan (oom_bm_add_many_skel st flags) in
  (oom_val r = OomFail /\ oom_live r = 0%Z) \/ (oom_val r = OomOkCorrect /\ oom_live r = 0%Z).
Proof. exact oom_thm_bm_add_many. Qed.
Print Assumptions C18_bm_add_many_alloc_safe.

(* varintBitmapAddRange: single-run path and one-by-one path *)
Theorem C18_bm_add_range_alloc_safe : forall (plan : nat -> bool) (st : oom_bst) (nonempty_range big : bool) (flags : list bool),
  let r := arun_plan plan (oom_bm_add_range_skel st nonempty_range big flags) in
  (oom_val r = OomFail /\ oom_live r = 0%Z) \/ (oom_val r = OomOkCorrect /\ oom_live r = 0%Z).
Proof. exact oom_thm_bm_add_range. Qed.
Print Assumptions C18_bm_add_range_alloc_safe.

(* varintBitmapRemoveRange *)
Theorem C18_bm_remove_range_alloc_safe : forall (plan : nat -> bool) (st : oom_bst) (flags : list bool),
  let r := arun_plan plan (oom_bm_remove_range_skel st flags) in
  (oom_val r = OomFail /\ oom_live r = 0%Z) \/ (oom_val r = OomOkCorrect /\ oom_live r = 0%Z).
Proof. exact oom_thm_bm_remove_range. Qed.
Print Assumptions C18_bm_remove_range_alloc_safe.

(* varintBitmapAnd / Xor / AndNot: Create + one Add per member of the result *)
Theorem C18_bm_and_xor_andnot_alloc_safe : forall (plan : nat -> bool) (flags : list bool),
  let r := arun_plan plan (oom_bm_fresh_setop_skel flags) in
  (oom_val r = OomFail /\ oom_live r = 0%Z) \/ (oom_val r = OomOkCorrect /\ oom_live r = 2%Z).
Proof. exact oom_thm_bm_and_xor_andnot. Qed.
Print Assumptions C18_bm_and_xor_andnot_alloc_safe.

(* varintBitmapOr: Clone + one Add per member of the second operand *)
Theorem C18_bm_or_alloc_safe : forall (plan : nat -> bool) (st : oom_bst) (flags : list bool),
  let r := arun_plan plan (oom_bm_or_skel st flags) in
  (oom_val r = OomFail /\ oom_live r = 0%Z) \/ (oom_val r = OomOkCorrect /\ oom_live r = 2%Z).
Proof. exact oom_thm_bm_or. Qed.
Print Assumptions C18_bm_or_alloc_safe.

(* varintAdaptiveEncode: whatever fails, the call succeeds (the analysis falls
   back to uniqueCount = count, a failed encoder is replaced by TAGGED, which
   allocates nothing); sel / sel_fallback = the encodings selected with /
   without the analysis allocation *)
Theorem C18_adp_encode_alloc_safe : forall (plan : nat -> bool) (two_or_more : bool) (sel sel_fallback : N) (f : oom_adp_facts),
  (sel = 4%N \/ sel_fallback = 4%N -> oaf_bm_valid f = true) ->
  let r := arun_plan plan (oom_adp_encode_skel two_or_more sel sel_fallback f) in
  oom_val r = OomOkCorrect /\ oom_live r = 0%Z.
Proof. exact oom_thm_adp_encode. Qed.
Print Assumptions C18_adp_encode_alloc_safe.

(* varintBitmapEncode and varintBitmapToArray allocate nothing *)
Theorem C18_bm_encode_to_array_no_allocation : forall (plan : nat -> bool),
  arun_plan plan oom_bm_encode_skel = (OomOkCorrect, 0%Z, O) /\
  arun_plan plan oom_bm_to_array_skel = (OomOkCorrect, 0%Z, O).
Proof. exact oom_thm_bm_encode_to_array. Qed.
Print Assumptions C18_bm_encode_to_array_no_allocation.

(* the plans enumerated on the C side (`@oom=k`) are instances of `plan` *)
Theorem C18_single_failure_is_a_plan : forall (A : Type) (k : nat) (p : aprog A),
  arun k p = arun_plan (fun i => Nat.eqb i k) p.
Proof. exact oom_thm_single_failure_is_a_plan. Qed.
Print Assumptions C18_single_failure_is_a_plan.

(* the weakest-precondition rule behind every theorem above: a postcondition
   that holds on both branches of every allocation site holds under every plan *)
Theorem C18_all_plans_sound : forall (A : Type) (Q : A -> Z -> Prop) (p : aprog A) (plan : nat -> bool),
  asafe Q p 0%Z -> Q (oom_val (arun_plan plan p)) (oom_live (arun_plan plan p)).
Proof. exact asafe_sound. Qed.
Print Assumptions C18_all_plans_sound.

(* non-vacuity: with no failing allocation every call succeeds *)
Theorem C18_no_fault_succeeds_scalar : forall grow ne ex hn two exact t,
  oom_val (arun 0 oom_dict_create_skel) = OomOkCorrect /\
  oom_val (arun 0 (oom_dict_build_skel grow)) = OomOkCorrect /\
  oom_val (arun 0 (oom_dict_encode_skel grow)) = OomOkCorrect /\
  oom_val (arun 0 oom_dict_decode_skel) = OomOkCorrect /\
  oom_val (arun 0 oom_dict_decode_into_skel) = OomOkCorrect /\
  oom_val (arun 0 (oom_pfor_threshold_skel ne)) = OomOkCorrect /\
  oom_val (arun 0 (oom_pfor_encode_skel ne ex)) = OomOkCorrect /\
  oom_val (arun 0 oom_float_encode_skel) = OomOkCorrect /\
  oom_val (arun 0 (oom_float_decode_skel hn)) = OomOkCorrect /\
  oom_val (arun 0 (oom_adp_unique_skel two exact)) = OomOkCorrect /\
  oom_val (arun 0 (oom_adp_decode_skel t)) = OomOkCorrect /\
  oom_val (arun 0 oom_bm_create_skel) = OomOkCorrect /\
  oom_val (arun 0 oom_bm_clone_skel) = OomOkCorrect /\
  oom_val (arun 0 oom_bm_decode_skel) = OomOkCorrect.
Proof. exact oom_thm_no_fault_scalar. Qed.
Print Assumptions C18_no_fault_succeeds_scalar.

Theorem C18_no_fault_succeeds_bitmap : forall st present flags ne big,
  oom_val (arun 0 (oom_bm_add_skel st present)) = OomOkCorrect /\
  oom_val (arun 0 (oom_bm_remove_skel st present)) = OomOkCorrect /\
  oom_val (arun 0 (oom_bm_add_many_skel st flags)) = OomOkCorrect /\
  oom_val (arun 0 (oom_bm_add_range_skel st ne big flags)) = OomOkCorrect /\
  oom_val (arun 0 (oom_bm_remove_range_skel st flags)) = OomOkCorrect /\
  oom_val (arun 0 (oom_bm_fresh_setop_skel flags)) = OomOkCorrect /\
  oom_val (arun 0 (oom_bm_or_skel st flags)) = OomOkCorrect.
Proof. exact oom_thm_no_fault_bitmap. Qed.
Print Assumptions C18_no_fault_succeeds_bitmap.

Theorem C18_no_fault_succeeds_adp_encode_with : forall t f,
  oaf_bm_valid f = true -> oom_val (arun 0 (oom_adp_encode_with_skel t f)) = OomOkCorrect.
Proof. exact oom_thm_no_fault_adp_encode_with. Qed.
Print Assumptions C18_no_fault_succeeds_adp_encode_with.

(* the defects found (F32, F33), on the skeletons of the code as it was at
   6bd620f: And with 17 common members and the third allocation failing returned
   an incomplete set as a success; EncodeWith(PFOR) returned 1 when the encoder
   had failed.  Both witnesses were replayed on the real C (see the ledger). *)
Theorem C18_old_bitmap_and_refuted :
  oom_val (arun 3 (oom_old_bm_and_skel 17)) = OomOkWrong.
Proof. exact oom_old_bm_and_refuted. Qed.
Print Assumptions C18_old_bitmap_and_refuted.

Theorem C18_old_adaptive_encode_with_pfor_refuted :
  oom_val (arun 1 (oom_old_adp_encode_with_pfor_skel true false)) = OomOkWrong.
Proof. exact oom_old_adp_encode_with_pfor_refuted. Qed.
Print Assumptions C18_old_adaptive_encode_with_pfor_refuted.

(* the same plan on the repaired And: reported, nothing leaked *)
Example C18_bitmap_and_after_fix :
  oom_val (arun 3 (oom_bm_fresh_setop_skel (repeat false 17))) = OomFail /\
  oom_live (arun 3 (oom_bm_fresh_setop_skel (repeat false 17))) = 0%Z.
Proof. exact oom_bm_and_after_fix. Qed.

(* concrete runs: Add that crosses 4096 members, its allocation failing *)
Example C18_example_add_at_4096 :
  arun 1 (oom_bm_add_skel (mk_oom_bst 0 4096 4096) false) = (OomFail, 0%Z, 1%nat) /\
  arun 0 (oom_bm_add_skel (mk_oom_bst 0 4096 4096) false) = (OomOkCorrect, 0%Z, 1%nat) /\
  arun 2 (oom_float_decode_skel true) = (OomFail, 0%Z, 4%nat) /\
  arun 5 (oom_float_decode_skel true) = (OomFail, 0%Z, 5%nat) /\
  arun 4 (oom_dict_encode_skel true) = (OomFail, 0%Z, 4%nat).
Proof. vm_compute. repeat split; reflexivity. Qed.
