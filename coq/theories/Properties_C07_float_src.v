(* Properties_C07_float_src.v — property C07 (reduced float precisions stay within
   their documented relative error): the mantissa round-off behind
   C07_float_rel_error, stated about src_truncateMantissa / src_expandMantissa, the
   Gallina renderings that gen/c2coq.py regenerates from the CURRENT
   src/varintFloat.c on every run (coq/gen/Src_leaf_float.v; meaning of the c_*
   operations: CSem.v).  C integer values are Z; `COk v` = the C abstract machine
   yields v without undefined behaviour (a shift by 64 or more is CUB).
   4503599627370496 = 2^52, 9007199254740992 = 2^53: M ranges over the 53-bit
   significands (implicit bit included) of normal doubles; mb = mantissa bits kept
   (23 / 10 / 4 for HIGH / MEDIUM / LOW).  Nothing but statements closed by `exact`. *)
Require Import VV.Base VV.CSem VV.Float VV.LeafSrcFloat.
Require Import VVgen.Src_leaf_float.
Local Open Scope Z_scope.

(* the regenerated functions compute the hand model wherever the C is defined
   (uint8_t widths; the shift from_bits - to_bits, resp. to_bits - from_bits, at most 63) *)
Theorem C07_src_truncateMantissa_is_model : forall m f t,
  0 <= m < 18446744073709551616 -> 0 <= f < 256 -> 0 <= t < 256 -> (f <= t \/ f - t <= 63) ->
  src_truncateMantissa m f t = COk (Z.of_N (fl_truncate (Z.to_N m) (Z.to_N f) (Z.to_N t))).
Proof. exact src_truncateMantissa_is_model. Qed.
Print Assumptions C07_src_truncateMantissa_is_model.

Theorem C07_src_expandMantissa_is_model : forall m f t,
  0 <= m < 18446744073709551616 -> 0 <= f < 256 -> 0 <= t < 256 -> (t <= f \/ t - f <= 63) ->
  src_expandMantissa m f t = COk (Z.of_N (fl_expand (Z.to_N m) (Z.to_N f) (Z.to_N t))).
Proof. exact src_expandMantissa_is_model. Qed.
Print Assumptions C07_src_expandMantissa_is_model.

(* truncating a significand to mb bits and expanding it again moves it by at most 2^(52-mb)
   (half a unit of the kept precision; upwards inclusive: round half up), i.e. by at most
   2^-mb relative to M — the bound of C07_float_rel_error.  t = 2^mb is the carry case. *)
Theorem C07_src_float_mantissa_roundoff : forall M mb,
  4503599627370496 <= M < 9007199254740992 -> 1 <= mb <= 52 ->
  exists t e,
    src_truncateMantissa M 53 mb = COk t /\ 2 ^ (mb - 1) <= t <= 2 ^ mb /\
    src_expandMantissa t mb 53 = COk e /\ e = t * 2 ^ (53 - mb) /\
    - 2 ^ (52 - mb) < e - M <= 2 ^ (52 - mb) /\
    (e - M) * 2 ^ mb <= M /\ (M - e) * 2 ^ mb <= M.
Proof. exact src_float_mantissa_roundoff. Qed.
Print Assumptions C07_src_float_mantissa_roundoff.

(* the carry case: the field stored is t >> 1 (exponent incremented); it expands to 1.0 *)
Theorem C07_src_float_mantissa_carry : forall mb, 1 <= mb <= 52 ->
  src_expandMantissa (2 ^ mb / 2) mb 53 = COk 4503599627370496.
Proof. exact src_float_mantissa_carry. Qed.
Print Assumptions C07_src_float_mantissa_carry.

(* exact when no bits are dropped: both functions are the identity when the kept width is
   at least the full width (the FULL mode, which keeps all 52 fraction bits, does not call
   them at all: C07_float_full_exact) *)
Theorem C07_src_float_mantissa_exact : forall m f t,
  0 <= m < 18446744073709551616 -> 0 <= f < 256 -> 0 <= t < 256 -> f <= t ->
  src_truncateMantissa m f t = COk m /\ src_expandMantissa m t f = COk m.
Proof. exact src_float_mantissa_exact. Qed.
Print Assumptions C07_src_float_mantissa_exact.

(* non-vacuity: the regenerated functions on concrete significands: 1.9999999999 at MEDIUM
   (the F21 witness) carries; a tie rounds up; an undefined shift is reported as such *)
Example C07_src_float_example :
  src_truncateMantissa 9007199254290629 53 10 = COk 1024 /\
  src_expandMantissa 512 10 53 = COk 4503599627370496 /\
  src_truncateMantissa 4503599627370496 53 23 = COk 4194304 /\
  src_expandMantissa 4194304 23 53 = COk 4503599627370496 /\
  src_truncateMantissa (4503599627370496 + 536870912) 53 23 = COk 4194305 /\
  src_truncateMantissa 5 53 53 = COk 5 /\
  src_truncateMantissa 5 200 10 = CUB UB_shift.
Proof. vm_compute. repeat split; reflexivity. Qed.
