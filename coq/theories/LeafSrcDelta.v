(* LeafSrcDelta.v — the regenerated renderings (coq/gen/Src_leaf_delta.v, produced
   by gen/c2coq.py from the current src/varintDelta.c + varintDelta.h) of
   varintDeltaZigZag and varintDeltaZigZagDecode compute what the hand model
   (Delta.v) computes, on all of int64_t / uint64_t; and the zigzag theorems of
   property C02 restated about them. *)
Require Import VV.Base VV.BaseProofs VV.Delta VV.DeltaProofs VV.CSem VV.CSemProofs VV.LeafSrcLemmas.
Require Import VVgen.Src_leaf_delta.
From Coq Require Import Lia ZifyBool ZifyN ZifyNat.
Local Open Scope Z_scope.
Ltac Zify.zify_post_hook ::= Z.div_mod_to_equations.

(* all 2^64 arguments; the case split is the model's (sign of n), every `if` of
   the unfolded term is decided wherever it stands *)
Lemma src_varintDeltaZigZag_is_model : forall n, -9223372036854775808 <= n <= 9223372036854775807 ->
  src_varintDeltaZigZag n = COk (Z.of_N (delta_zigzag n)).
Proof.
  intros n H. rewrite delta_zigzag_is_spec by (apply in_s64_iff; exact H).
  unfold delta_zigzag_spec.
  unfold src_varintDeltaZigZag. c_run.
  all: closed_eval; lxor_to_sub; f_equal; lia.
Qed.

(* all 2^64 arguments; split on the low bit (the model's two classes) *)
Lemma src_varintDeltaZigZagDecode_is_model : forall z, 0 <= z < 18446744073709551616 ->
  src_varintDeltaZigZagDecode z = COk (delta_unzigzag (Z.to_N z)).
Proof.
  intros z H. rewrite delta_unzigzag_eq by lia.
  assert (C : z mod 2 = 0 \/ z mod 2 = 1) by lia.
  unfold src_varintDeltaZigZagDecode. c_unfold. closed_eval. land_to_mod. change (2 ^ 1) with 2.
  destruct C as [C|C]; rewrite ?C; closed_eval.
  all: repeat c_step; c_simp.
  all: closed_eval; lxor_to_sub; f_equal; lia.
Qed.

(* ---------- property C02, zigzag part, about the regenerated functions ---------- *)

Theorem src_zigzag_is_spec : forall n, -9223372036854775808 <= n <= 9223372036854775807 ->
  src_varintDeltaZigZag n = COk (if 0 <=? n then 2 * n else - 2 * n - 1).
Proof.
  intros n H. rewrite src_varintDeltaZigZag_is_model by exact H.
  rewrite delta_zigzag_is_spec by (apply in_s64_iff; exact H). unfold delta_zigzag_spec.
  f_equal. destruct (0 <=? n) eqn:E; lia.
Qed.

Theorem src_zigzag_roundtrip : forall n, -9223372036854775808 <= n <= 9223372036854775807 ->
  exists z, src_varintDeltaZigZag n = COk z /\ 0 <= z < 18446744073709551616 /\
            src_varintDeltaZigZagDecode z = COk n.
Proof.
  intros n H. assert (S : in_s64 n = true) by (apply in_s64_iff; exact H).
  exists (Z.of_N (delta_zigzag n)). pose proof (delta_zigzag_lt n S) as L.
  split; [apply src_varintDeltaZigZag_is_model; exact H|]. split; [lia|].
  rewrite src_varintDeltaZigZagDecode_is_model by lia. rewrite N2Z.id.
  f_equal. apply delta_unzigzag_zigzag. exact S.
Qed.

Theorem src_unzigzag_roundtrip : forall z, 0 <= z < 18446744073709551616 ->
  exists n, src_varintDeltaZigZagDecode z = COk n /\
            -9223372036854775808 <= n <= 9223372036854775807 /\
            src_varintDeltaZigZag n = COk z.
Proof.
  intros z H. assert (L : (Z.to_N z < 18446744073709551616)%N) by lia.
  exists (delta_unzigzag (Z.to_N z)).
  pose proof (delta_unzigzag_range _ L) as R. apply in_s64_iff in R.
  split; [apply src_varintDeltaZigZagDecode_is_model; exact H|]. split; [exact R|].
  rewrite src_varintDeltaZigZag_is_model by exact R.
  rewrite delta_zigzag_unzigzag by exact L. f_equal. lia.
Qed.
