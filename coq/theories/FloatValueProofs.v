(* FloatValueProofs.v — what one value becomes through prepare (encoder side)
   and mant_of/compose (decoder side): exactness in full precision and for
   specials, the relative error bound in the reduced precisions. *)
Require Import VV.Base VV.BaseProofs VV.Float VV.FloatSpec VV.FloatLemmas.
From Coq Require Import Lia ZifyBool ZifyN ZifyNat.
Local Open Scope N_scope.
Ltac Zify.zify_post_hook ::= Z.div_mod_to_equations.

(* one value through encoder + decoder *)
Definition fl_rt_elem (mb : N) (e : fl_elem) : N :=
  if e_special e then e_raw e
  else fl_compose (e_sign e) (e_exp e) (fl_mant_of mb (e_mant e mod 2 ^ mb)).
Definition fl_rt (mb : N) (d : N) : N := fl_rt_elem mb (fl_prepare mb d).

Definition fl_elem_ok (e : fl_elem) : Prop :=
  e_sign e < 2 /\ e_raw e < 18446744073709551616 /\
  (e_special e = false -> (-1022 <= e_exp e <= 1024)%Z).

Lemma fl_fields d : d < 18446744073709551616 ->
  d = fl_sgn d * 9223372036854775808 + fl_bexp d * 4503599627370496 + fl_frac d
  /\ fl_sgn d < 2 /\ fl_bexp d < 2048 /\ fl_frac d < 4503599627370496.
Proof. intro H. unfold fl_sgn, fl_bexp, fl_frac. lia. Qed.

Lemma fl_decompose_arith d : d < 18446744073709551616 ->
  fl_decompose d =
    if fl_bexp d =? 2047 then mk_parts false (fl_sgn d) 2047%Z (fl_frac d)
    else if fl_bexp d =? 0 then
      (if fl_frac d =? 0 then mk_parts false (fl_sgn d) 0%Z (fl_frac d)
       else mk_parts false (fl_sgn d) (1 - 1023)%Z (fl_frac d))
    else mk_parts true (fl_sgn d) (Z.of_N (fl_bexp d) - 1023)%Z
                  (fl_frac d + 4503599627370496).
Proof.
  intro H. unfold fl_decompose, shr. cbv zeta.
  rewrite fl_land_mask1, fl_land_mask11, fl_land_mask52.
  change (2 ^ 63) with 9223372036854775808. change (2 ^ 52) with 4503599627370496.
  replace ((d / 9223372036854775808) mod 2) with (fl_sgn d) by (unfold fl_sgn; lia).
  fold (fl_bexp d). fold (fl_frac d).
  destruct (fl_fields d H) as (_ & _ & Hb & Hf).
  rewrite fl_lor_bit52 by exact Hf.
  rewrite fl_s16_id by lia. reflexivity.
Qed.

Lemma fl_decompose_normal d : d < 18446744073709551616 -> fl_is_special d = false ->
  fl_decompose d = mk_parts true (fl_sgn d) (Z.of_N (fl_bexp d) - 1023)%Z
                            (fl_frac d + 4503599627370496).
Proof.
  intros H S. rewrite fl_decompose_arith by exact H. unfold fl_is_special in S.
  destruct (fl_bexp d =? 2047) eqn:E1; [lia|]. destruct (fl_bexp d =? 0) eqn:E2; [lia|]. reflexivity.
Qed.

Lemma fl_decompose_special d : d < 18446744073709551616 -> fl_is_special d = true ->
  p_normal (fl_decompose d) = false.
Proof.
  intros H S. rewrite fl_decompose_arith by exact H. unfold fl_is_special in S.
  destruct (fl_bexp d =? 2047) eqn:E1; [reflexivity|].
  destruct (fl_bexp d =? 0) eqn:E2; [|lia]. destruct (fl_frac d =? 0); reflexivity.
Qed.

Lemma fl_decompose_sign d : d < 18446744073709551616 -> p_sign (fl_decompose d) = fl_sgn d.
Proof.
  intro H. rewrite fl_decompose_arith by exact H.
  destruct (fl_bexp d =? 2047); [reflexivity|]. destruct (fl_bexp d =? 0); [|reflexivity].
  destruct (fl_frac d =? 0); reflexivity.
Qed.

(* ---------- prepare ---------- *)

Lemma fl_prepare_raw mb d : e_raw (fl_prepare mb d) = d.
Proof.
  unfold fl_prepare. cbv zeta. destruct (p_normal (fl_decompose d)); [|reflexivity].
  destruct (mb =? 52); [reflexivity|].
  destruct (shr _ mb =? 0); reflexivity.
Qed.

Lemma fl_prepare_special mb d : d < 18446744073709551616 ->
  e_special (fl_prepare mb d) = fl_is_special d.
Proof.
  intro H. unfold fl_prepare. cbv zeta. destruct (fl_is_special d) eqn:S.
  - rewrite fl_decompose_special by assumption. reflexivity.
  - rewrite fl_decompose_normal by assumption. cbn [p_normal].
    destruct (mb =? 52); [reflexivity|]. destruct (shr _ mb =? 0); reflexivity.
Qed.

Lemma fl_prepare_sign mb d : d < 18446744073709551616 -> e_sign (fl_prepare mb d) = fl_sgn d.
Proof.
  intro H. unfold fl_prepare. cbv zeta. rewrite <- (fl_decompose_sign d H).
  destruct (p_normal (fl_decompose d)); [|reflexivity].
  destruct (mb =? 52); [reflexivity|]. destruct (shr _ mb =? 0); reflexivity.
Qed.

Lemma fl_prepare_ok mb d : d < 18446744073709551616 -> fl_elem_ok (fl_prepare mb d).
Proof.
  intro H. unfold fl_elem_ok. rewrite fl_prepare_raw, fl_prepare_sign by exact H.
  destruct (fl_fields d H) as (_ & Hs & Hb & Hf).
  split; [exact Hs|]. split; [exact H|]. intro S.
  rewrite fl_prepare_special in S by exact H.
  unfold fl_prepare. cbv zeta. rewrite fl_decompose_normal by assumption. cbn [p_normal p_exp p_sign p_mant].
  unfold fl_is_special in S.
  destruct (mb =? 52); [cbn [e_exp]; lia|].
  destruct (shr _ mb =? 0); cbn [e_exp]; [lia|]. rewrite fl_s16_id by lia. lia.
Qed.

(* ---------- compose on an in-range exponent ---------- *)

Lemma fl_compose_normal s e m : s < 2 -> (-1022 <= e <= 1023)%Z -> m <> 0 ->
  fl_compose s e m = s * 9223372036854775808 + Z.to_N (e + 1023) * 4503599627370496
                     + m mod 4503599627370496.
Proof.
  intros Hs He Hm. unfold fl_compose. cbv zeta.
  replace ((e =? 0)%Z && (m =? 0)) with false by lia.
  destruct (e + 1023 <=? 0)%Z eqn:E1; [lia|]. destruct (2047 <=? e + 1023)%Z eqn:E2; [lia|].
  rewrite fl_land_mask52. rewrite !fl_shl64_small by lia.
  change (2 ^ 63) with 9223372036854775808. change (2 ^ 52) with 4503599627370496.
  rewrite (lor_add_mod0 (s * 9223372036854775808) _ 63) by lia.
  rewrite (lor_add_mod0 _ (m mod 4503599627370496) 52) by lia. reflexivity.
Qed.

Lemma fl_compose_inf s m : s < 2 -> m <> 0 ->
  fl_compose s 1024 m = s * 9223372036854775808 + 2047 * 4503599627370496.
Proof.
  intros Hs Hm. unfold fl_compose. cbv zeta.
  replace ((1024 =? 0)%Z && (m =? 0)) with false by lia.
  cbn [Z.add Z.leb Z.compare Pos.add Pos.succ Pos.compare Pos.compare_cont Pos.add_carry].
  rewrite !fl_shl64_small by lia.
  change (2 ^ 63) with 9223372036854775808. change (2 ^ 52) with 4503599627370496.
  rewrite (lor_add_mod0 (s * 9223372036854775808) _ 63) by lia. reflexivity.
Qed.

(* ---------- specials and full precision: exact ---------- *)

Lemma fl_rt_special mb d : d < 18446744073709551616 -> fl_is_special d = true -> fl_rt mb d = d.
Proof.
  intros H S. unfold fl_rt, fl_rt_elem. rewrite fl_prepare_special, S by exact H.
  apply fl_prepare_raw.
Qed.

Lemma fl_rt_full d : d < 18446744073709551616 -> fl_rt 52 d = d.
Proof.
  intro H. destruct (fl_is_special d) eqn:S; [apply fl_rt_special; assumption|].
  unfold fl_rt, fl_rt_elem, fl_prepare. cbv zeta.
  rewrite fl_decompose_normal by assumption. cbn [p_normal p_exp p_sign p_mant N.eqb Pos.eqb].
  cbn [e_special e_sign e_exp e_mant].
  destruct (fl_fields d H) as (Hd & Hs & Hb & Hf). unfold fl_is_special in S.
  rewrite fl_land_mask52. unfold fl_mant_of. cbn [N.eqb Pos.eqb].
  change (2 ^ 52) with 4503599627370496.
  replace (((fl_frac d + 4503599627370496) mod 4503599627370496) mod 4503599627370496)
    with (fl_frac d) by lia.
  rewrite fl_lor_bit52 by exact Hf.
  rewrite fl_compose_normal by lia. lia.
Qed.

(* ---------- reduced precisions ---------- *)

Lemma fl_scale_sub_le a b c P : (a - b) * c <= b -> (a * P - b * P) * c <= b * P.
Proof.
  intro H. rewrite <- N.mul_sub_distr_r. rewrite N.mul_shuffle0. apply N.mul_le_mono_r. exact H.
Qed.
Lemma fl_scale_sub_le' a b c P : (b - a) * c <= b -> (b * P - a * P) * c <= b * P.
Proof.
  intro H. rewrite <- N.mul_sub_distr_r. rewrite N.mul_shuffle0. apply N.mul_le_mono_r. exact H.
Qed.

(* fields of an assembled pattern *)
Lemma fl_fields_of s E F : s < 2 -> E < 2048 -> F < 4503599627370496 ->
  let d := s * 9223372036854775808 + E * 4503599627370496 + F in
  fl_sgn d = s /\ fl_bexp d = E /\ fl_frac d = F /\ d < 18446744073709551616.
Proof. intros. unfold d, fl_sgn, fl_bexp, fl_frac. lia. Qed.


Lemma fl_rt_23_form d : d < 18446744073709551616 -> fl_is_special d = false ->
  let M := fl_sig d in let t := (M + 536870912) / 1073741824 in
  fl_rt 23 d =
    if t <? 8388608 then
      fl_sgn d * 9223372036854775808 + fl_bexp d * 4503599627370496 + (t * 1073741824 - 4503599627370496)
    else fl_sgn d * 9223372036854775808 + (fl_bexp d + 1) * 4503599627370496.
Proof.
  intros H S M t.
  destruct (fl_fields d H) as (Hd & Hs & Hb & Hf). pose proof S as S'. unfold fl_is_special in S'.
  unfold fl_rt, fl_rt_elem, fl_prepare. cbv zeta.
  rewrite fl_decompose_normal by assumption. cbn [p_normal p_exp p_sign p_mant N.eqb Pos.eqb].
  assert (Ht : fl_truncate (fl_frac d + 4503599627370496) 53 23 = t).
  { unfold fl_truncate, add64, shl64, shr. change (53 <=? 23) with false. cbv iota.
    change (53 - 23) with 30. change (30 - 1) with 29. unfold t, M, fl_sig. lia. }
  rewrite Ht. unfold shr. change (2 ^ 23) with 8388608.
  assert (Mr : 4503599627370496 <= M < 9007199254740992) by (unfold M, fl_sig; lia).
  destruct (t <? 8388608) eqn:C.
  - replace (t / 8388608 =? 0) with true by lia. cbn [e_special e_sign e_exp e_mant].
    unfold fl_mant_of, fl_expand. change (23 =? 52) with false. change (53 <=? 23) with false. cbv iota.
    change (53 - 23) with 30. rewrite (N.mod_small t) by lia.
    rewrite fl_shl64_small by (change (2 ^ 30) with 1073741824; lia).
    change (2 ^ 30) with 1073741824.
    rewrite fl_compose_normal by lia. lia.
  - replace (t / 8388608 =? 0) with false by lia. cbn [e_special e_sign e_exp e_mant].
    assert (Et : t = 8388608) by (unfold t; lia). rewrite Et.
    unfold fl_mant_of, fl_expand, shr. change (23 =? 52) with false. change (53 <=? 23) with false. cbv iota.
    change (8388608 / 2 ^ 1 mod 8388608) with 4194304. change (53 - 23) with 30.
    change (shl64 4194304 30) with 4503599627370496.
    rewrite fl_s16_id by lia.
    destruct (N.eq_dec (fl_bexp d) 2046) as [E|E].
    + rewrite E. change (Z.of_N 2046 - 1023 + 1)%Z with 1024%Z.
      rewrite fl_compose_inf by lia. lia.
    + rewrite fl_compose_normal by lia. lia.
Qed.

Lemma fl_rt_23_bound d : d < 18446744073709551616 -> fl_is_special d = false ->
  let d' := fl_rt 23 d in
  d' < 18446744073709551616 /\ fl_sgn d' = fl_sgn d /\
  ((fl_is_inf d' = true /\ fl_bexp d = 2046 /\ 9007199254740992 <= fl_sig d + 536870912) \/
   (fl_is_special d' = false /\
    (fl_mag d' - fl_mag d) * 8388608 <= fl_mag d /\ (fl_mag d - fl_mag d') * 8388608 <= fl_mag d)).
Proof.
  intros H S d'. unfold d'. rewrite fl_rt_23_form by assumption. cbv zeta.
  destruct (fl_fields d H) as (Hd & Hs & Hb & Hf). pose proof S as S'. unfold fl_is_special in S'.
  set (M := fl_sig d). set (t := (M + 536870912) / 1073741824).
  assert (Mr : 4503599627370496 <= M < 9007199254740992) by (unfold M, fl_sig; lia).
  destruct (t <? 8388608) eqn:C.
  - destruct (fl_fields_of (fl_sgn d) (fl_bexp d) (t * 1073741824 - 4503599627370496)) as (A1 & A2 & A3 & A4);
      [lia | lia | lia |].
    split; [exact A4|]. split; [exact A1|]. right.
    unfold fl_is_special, fl_mag, fl_sig. rewrite A2, A3. fold (fl_sig d). fold M.
    replace (4503599627370496 + (t * 1073741824 - 4503599627370496)) with (t * 1073741824) by lia.
    split; [lia|]. split.
    + apply fl_scale_sub_le. lia.
    + apply fl_scale_sub_le'. lia.
  - destruct (N.eq_dec (fl_bexp d) 2046) as [E|E].
    + destruct (fl_fields_of (fl_sgn d) 2047 0) as (A1 & A2 & A3 & A4); [lia | lia | lia |].
      rewrite E. change (2046 + 1) with 2047.
      rewrite N.add_0_r in A1, A2, A3, A4.
      split; [exact A4|]. split; [exact A1|]. left.
      unfold fl_is_inf. rewrite A2, A3. split; [reflexivity|]. split; [reflexivity|]. lia.
    + destruct (fl_fields_of (fl_sgn d) (fl_bexp d + 1) 0) as (A1 & A2 & A3 & A4); [lia | lia | lia |].
      rewrite N.add_0_r in A1, A2, A3, A4.
      split; [exact A4|]. split; [exact A1|]. right.
      unfold fl_is_special, fl_mag, fl_sig. rewrite A2, A3. fold (fl_sig d). fold M.
      rewrite N.add_0_r, N.add_1_r, N.pow_succ_r'.
      replace (4503599627370496 * (2 * 2 ^ fl_bexp d)) with (9007199254740992 * 2 ^ fl_bexp d) by lia.
      split; [lia|]. split.
      * apply fl_scale_sub_le. lia.
      * apply fl_scale_sub_le'. lia.
Qed.

Lemma fl_rt_10_form d : d < 18446744073709551616 -> fl_is_special d = false ->
  let M := fl_sig d in let t := (M + 4398046511104) / 8796093022208 in
  fl_rt 10 d =
    if t <? 1024 then
      fl_sgn d * 9223372036854775808 + fl_bexp d * 4503599627370496 + (t * 8796093022208 - 4503599627370496)
    else fl_sgn d * 9223372036854775808 + (fl_bexp d + 1) * 4503599627370496.
Proof.
  intros H S M t.
  destruct (fl_fields d H) as (Hd & Hs & Hb & Hf). pose proof S as S'. unfold fl_is_special in S'.
  unfold fl_rt, fl_rt_elem, fl_prepare. cbv zeta.
  rewrite fl_decompose_normal by assumption. cbn [p_normal p_exp p_sign p_mant N.eqb Pos.eqb].
  assert (Ht : fl_truncate (fl_frac d + 4503599627370496) 53 10 = t).
  { unfold fl_truncate, add64, shl64, shr. change (53 <=? 10) with false. cbv iota.
    change (53 - 10) with 43. change (43 - 1) with 42. unfold t, M, fl_sig. lia. }
  rewrite Ht. unfold shr. change (2 ^ 10) with 1024.
  assert (Mr : 4503599627370496 <= M < 9007199254740992) by (unfold M, fl_sig; lia).
  destruct (t <? 1024) eqn:C.
  - replace (t / 1024 =? 0) with true by lia. cbn [e_special e_sign e_exp e_mant].
    unfold fl_mant_of, fl_expand. change (10 =? 52) with false. change (53 <=? 10) with false. cbv iota.
    change (53 - 10) with 43. rewrite (N.mod_small t) by lia.
    rewrite fl_shl64_small by (change (2 ^ 43) with 8796093022208; lia).
    change (2 ^ 43) with 8796093022208.
    rewrite fl_compose_normal by lia. lia.
  - replace (t / 1024 =? 0) with false by lia. cbn [e_special e_sign e_exp e_mant].
    assert (Et : t = 1024) by (unfold t; lia). rewrite Et.
    unfold fl_mant_of, fl_expand, shr. change (10 =? 52) with false. change (53 <=? 10) with false. cbv iota.
    change (1024 / 2 ^ 1 mod 1024) with 512. change (53 - 10) with 43.
    change (shl64 512 43) with 4503599627370496.
    rewrite fl_s16_id by lia.
    destruct (N.eq_dec (fl_bexp d) 2046) as [E|E].
    + rewrite E. change (Z.of_N 2046 - 1023 + 1)%Z with 1024%Z.
      rewrite fl_compose_inf by lia. lia.
    + rewrite fl_compose_normal by lia. lia.
Qed.

Lemma fl_rt_10_bound d : d < 18446744073709551616 -> fl_is_special d = false ->
  let d' := fl_rt 10 d in
  d' < 18446744073709551616 /\ fl_sgn d' = fl_sgn d /\
  ((fl_is_inf d' = true /\ fl_bexp d = 2046 /\ 9007199254740992 <= fl_sig d + 4398046511104) \/
   (fl_is_special d' = false /\
    (fl_mag d' - fl_mag d) * 1024 <= fl_mag d /\ (fl_mag d - fl_mag d') * 1024 <= fl_mag d)).
Proof.
  intros H S d'. unfold d'. rewrite fl_rt_10_form by assumption. cbv zeta.
  destruct (fl_fields d H) as (Hd & Hs & Hb & Hf). pose proof S as S'. unfold fl_is_special in S'.
  set (M := fl_sig d). set (t := (M + 4398046511104) / 8796093022208).
  assert (Mr : 4503599627370496 <= M < 9007199254740992) by (unfold M, fl_sig; lia).
  destruct (t <? 1024) eqn:C.
  - destruct (fl_fields_of (fl_sgn d) (fl_bexp d) (t * 8796093022208 - 4503599627370496)) as (A1 & A2 & A3 & A4);
      [lia | lia | lia |].
    split; [exact A4|]. split; [exact A1|]. right.
    unfold fl_is_special, fl_mag, fl_sig. rewrite A2, A3. fold (fl_sig d). fold M.
    replace (4503599627370496 + (t * 8796093022208 - 4503599627370496)) with (t * 8796093022208) by lia.
    split; [lia|]. split.
    + apply fl_scale_sub_le. lia.
    + apply fl_scale_sub_le'. lia.
  - destruct (N.eq_dec (fl_bexp d) 2046) as [E|E].
    + destruct (fl_fields_of (fl_sgn d) 2047 0) as (A1 & A2 & A3 & A4); [lia | lia | lia |].
      rewrite E. change (2046 + 1) with 2047.
      rewrite N.add_0_r in A1, A2, A3, A4.
      split; [exact A4|]. split; [exact A1|]. left.
      unfold fl_is_inf. rewrite A2, A3. split; [reflexivity|]. split; [reflexivity|]. lia.
    + destruct (fl_fields_of (fl_sgn d) (fl_bexp d + 1) 0) as (A1 & A2 & A3 & A4); [lia | lia | lia |].
      rewrite N.add_0_r in A1, A2, A3, A4.
      split; [exact A4|]. split; [exact A1|]. right.
      unfold fl_is_special, fl_mag, fl_sig. rewrite A2, A3. fold (fl_sig d). fold M.
      rewrite N.add_0_r, N.add_1_r, N.pow_succ_r'.
      replace (4503599627370496 * (2 * 2 ^ fl_bexp d)) with (9007199254740992 * 2 ^ fl_bexp d) by lia.
      split; [lia|]. split.
      * apply fl_scale_sub_le. lia.
      * apply fl_scale_sub_le'. lia.
Qed.

Lemma fl_rt_4_form d : d < 18446744073709551616 -> fl_is_special d = false ->
  let M := fl_sig d in let t := (M + 281474976710656) / 562949953421312 in
  fl_rt 4 d =
    if t <? 16 then
      fl_sgn d * 9223372036854775808 + fl_bexp d * 4503599627370496 + (t * 562949953421312 - 4503599627370496)
    else fl_sgn d * 9223372036854775808 + (fl_bexp d + 1) * 4503599627370496.
Proof.
  intros H S M t.
  destruct (fl_fields d H) as (Hd & Hs & Hb & Hf). pose proof S as S'. unfold fl_is_special in S'.
  unfold fl_rt, fl_rt_elem, fl_prepare. cbv zeta.
  rewrite fl_decompose_normal by assumption. cbn [p_normal p_exp p_sign p_mant N.eqb Pos.eqb].
  assert (Ht : fl_truncate (fl_frac d + 4503599627370496) 53 4 = t).
  { unfold fl_truncate, add64, shl64, shr. change (53 <=? 4) with false. cbv iota.
    change (53 - 4) with 49. change (49 - 1) with 48. unfold t, M, fl_sig. lia. }
  rewrite Ht. unfold shr. change (2 ^ 4) with 16.
  assert (Mr : 4503599627370496 <= M < 9007199254740992) by (unfold M, fl_sig; lia).
  destruct (t <? 16) eqn:C.
  - replace (t / 16 =? 0) with true by lia. cbn [e_special e_sign e_exp e_mant].
    unfold fl_mant_of, fl_expand. change (4 =? 52) with false. change (53 <=? 4) with false. cbv iota.
    change (53 - 4) with 49. rewrite (N.mod_small t) by lia.
    rewrite fl_shl64_small by (change (2 ^ 49) with 562949953421312; lia).
    change (2 ^ 49) with 562949953421312.
    rewrite fl_compose_normal by lia. lia.
  - replace (t / 16 =? 0) with false by lia. cbn [e_special e_sign e_exp e_mant].
    assert (Et : t = 16) by (unfold t; lia). rewrite Et.
    unfold fl_mant_of, fl_expand, shr. change (4 =? 52) with false. change (53 <=? 4) with false. cbv iota.
    change (16 / 2 ^ 1 mod 16) with 8. change (53 - 4) with 49.
    change (shl64 8 49) with 4503599627370496.
    rewrite fl_s16_id by lia.
    destruct (N.eq_dec (fl_bexp d) 2046) as [E|E].
    + rewrite E. change (Z.of_N 2046 - 1023 + 1)%Z with 1024%Z.
      rewrite fl_compose_inf by lia. lia.
    + rewrite fl_compose_normal by lia. lia.
Qed.

Lemma fl_rt_4_bound d : d < 18446744073709551616 -> fl_is_special d = false ->
  let d' := fl_rt 4 d in
  d' < 18446744073709551616 /\ fl_sgn d' = fl_sgn d /\
  ((fl_is_inf d' = true /\ fl_bexp d = 2046 /\ 9007199254740992 <= fl_sig d + 281474976710656) \/
   (fl_is_special d' = false /\
    (fl_mag d' - fl_mag d) * 16 <= fl_mag d /\ (fl_mag d - fl_mag d') * 16 <= fl_mag d)).
Proof.
  intros H S d'. unfold d'. rewrite fl_rt_4_form by assumption. cbv zeta.
  destruct (fl_fields d H) as (Hd & Hs & Hb & Hf). pose proof S as S'. unfold fl_is_special in S'.
  set (M := fl_sig d). set (t := (M + 281474976710656) / 562949953421312).
  assert (Mr : 4503599627370496 <= M < 9007199254740992) by (unfold M, fl_sig; lia).
  destruct (t <? 16) eqn:C.
  - destruct (fl_fields_of (fl_sgn d) (fl_bexp d) (t * 562949953421312 - 4503599627370496)) as (A1 & A2 & A3 & A4);
      [lia | lia | lia |].
    split; [exact A4|]. split; [exact A1|]. right.
    unfold fl_is_special, fl_mag, fl_sig. rewrite A2, A3. fold (fl_sig d). fold M.
    replace (4503599627370496 + (t * 562949953421312 - 4503599627370496)) with (t * 562949953421312) by lia.
    split; [lia|]. split.
    + apply fl_scale_sub_le. lia.
    + apply fl_scale_sub_le'. lia.
  - destruct (N.eq_dec (fl_bexp d) 2046) as [E|E].
    + destruct (fl_fields_of (fl_sgn d) 2047 0) as (A1 & A2 & A3 & A4); [lia | lia | lia |].
      rewrite E. change (2046 + 1) with 2047.
      rewrite N.add_0_r in A1, A2, A3, A4.
      split; [exact A4|]. split; [exact A1|]. left.
      unfold fl_is_inf. rewrite A2, A3. split; [reflexivity|]. split; [reflexivity|]. lia.
    + destruct (fl_fields_of (fl_sgn d) (fl_bexp d + 1) 0) as (A1 & A2 & A3 & A4); [lia | lia | lia |].
      rewrite N.add_0_r in A1, A2, A3, A4.
      split; [exact A4|]. split; [exact A1|]. right.
      unfold fl_is_special, fl_mag, fl_sig. rewrite A2, A3. fold (fl_sig d). fold M.
      rewrite N.add_0_r, N.add_1_r, N.pow_succ_r'.
      replace (4503599627370496 * (2 * 2 ^ fl_bexp d)) with (9007199254740992 * 2 ^ fl_bexp d) by lia.
      split; [lia|]. split.
      * apply fl_scale_sub_le. lia.
      * apply fl_scale_sub_le'. lia.
Qed.
