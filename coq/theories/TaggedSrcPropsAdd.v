(* TaggedSrcPropsAdd.v — C12 restated about the REGENERATED in-place adders
   src_varintTaggedAddNoGrow / src_varintTaggedAddGrow (coq/gen/Src_tagged.v). *)
Require Import VV.Base VV.BaseProofs VV.Tagged VV.TaggedProofs VV.TaggedSpecProofs VV.TaggedFixed VV.CSem VV.CSemProofs
  VV.TaggedSrcLen VV.TaggedSrcPut VV.TaggedSrcGet VV.TaggedSrcPropsPut VV.TaggedSrcAdd.
Require Import VVgen.Src_tagged.
From Coq Require Import Lia ZifyBool ZifyN ZifyNat.
Local Open Scope Z_scope.

Lemma bytes_ok_store p bs : bytes_ok p -> bytes_ok bs -> bytes_ok (store p 0 bs).
Proof.
  intros Hp Hb. unfold store, bytes_ok in *. cbn [firstn app].
  apply Forall_app. split; [exact Hb|].
  rewrite <- (firstn_skipn (0 + length bs) p) in Hp. apply Forall_app in Hp. apply Hp.
Qed.

Lemma src_tagged_add_spec p add (force : bool) :
  bytes_ok p -> -9223372036854775808 <= add <= 9223372036854775807 ->
  Z.of_N (tagged_getlen p) <= Z.of_nat (length p) -> (force = true -> (9 <= length p)%nat) ->
  exists w v, src_varintTaggedGet64 p None = COk (w, Some v) /\ 0 <= v < 18446744073709551616 /\
    let s := (if v <? 9223372036854775808 then v else v - 18446744073709551616) + add in
    let call := if force then src_varintTaggedAddGrow p add else src_varintTaggedAddNoGrow p add in
    ((s < -9223372036854775808 \/ 9223372036854775807 < s) -> call = COk (0, p)) /\
    (-9223372036854775808 <= s <= 9223372036854775807 ->
       exists nw, src_varintTaggedLen (s mod 18446744073709551616) = COk nw /\
         (force = false /\ w < nw -> call = COk (nw, p)) /\
         (force = true \/ nw <= w ->
            exists out, call = COk (nw, out) /\
              src_varintTaggedGet64 out None = COk (nw, Some (s mod 18446744073709551616)) /\
              skipn (Z.to_nat nw) out = skipn (Z.to_nat nw) p)).
Proof.
  intros Hz Ha Hl H9.
  pose proof (bytes_ok_nth p 0 Hz) as Hb0.
  assert (G9 : (tagged_getlen p <= 9)%N) by (unfold tagged_getlen; cbv zeta; kill_ifs; lia).
  assert (G1 : (1 <= tagged_getlen p)%N) by (unfold tagged_getlen; cbv zeta; kill_ifs; lia).
  pose proof (tagged_get_width p 9 Hb0 ltac:(lia)) as Hw.
  pose proof (tagged_get_val_lt p 9 Hz) as Hv.
  assert (Hcall : (if force then src_varintTaggedAddGrow p add else src_varintTaggedAddNoGrow p add)
                  = COk (add_result p add force)).
  { destruct force; [apply src_varintTaggedAddGrow_is_model|apply src_varintTaggedAddNoGrow_is_model]; auto. }
  rewrite src_varintTaggedGet64_is_model by (try assumption; lia). unfold get_result.
  change (tagged_get p 9) with (tagged_get64 p) in *.
  set (g := tagged_get64 p) in *.
  destruct (fst g =? 0)%N eqn:E0; [lia|].
  exists (Z.of_N (fst g)), (Z.of_N (snd g)). split; [reflexivity|]. split; [lia|].
  cbv zeta. rewrite Hcall. unfold add_result.
  assert (S : (if Z.of_N (snd g) <? 9223372036854775808 then Z.of_N (snd g) else Z.of_N (snd g) - 18446744073709551616)
              = to_s64 (snd g)).
  { unfold to_s64. destruct (Z.of_N (snd g) <? 9223372036854775808) eqn:A, (snd g <? 9223372036854775808)%N eqn:B; lia. }
  rewrite S. set (s := to_s64 (snd g) + add).
  split.
  - intro Ho. rewrite tagged_add_overflow; [reflexivity|]. fold g. fold s. unfold in_s64. lia.
  - intro Hi. assert (I : in_s64 s = true) by (unfold in_s64; lia).
    assert (NV : Z.to_N (s mod 18446744073709551616) = of_s64 s) by reflexivity.
    exists (Z.of_N (tagged_len (of_s64 s))).
    split; [rewrite src_varintTaggedLen_is_model by lia; rewrite NV; reflexivity|].
    split.
    + intros [-> Hlt]. rewrite tagged_add_nogrow_too_big; [reflexivity|exact I|fold g; fold s; lia].
    + intro Hc.
      destruct (tagged_add_stores p add force I ltac:(fold g; fold s; destruct Hc; [left; assumption|right; lia]))
        as (F & R & G & K).
      fold g in F, R, G, K. fold s in F, R, G, K.
      exists (snd (tagged_add p add force)). rewrite F. split; [reflexivity|].
      replace (Z.to_nat (Z.of_N (tagged_len (of_s64 s)))) with (N.to_nat (tagged_len (of_s64 s))) by lia.
      split; [|exact K].
      (* the stored bytes read back through the regenerated reader *)
      assert (O : snd (tagged_add p add force) = store p 0 (tagged_put64 (of_s64 s)) \/ snd (tagged_add p add force) = p).
      { unfold tagged_add. cbv zeta. fold g. fold s. rewrite I. cbn [negb].
        destruct ((fst g <? tagged_len (of_s64 s))%N && negb force); [right|left]; reflexivity. }
      set (out := snd (tagged_add p add force)) in *.
      assert (Bo : bytes_ok out) by (destruct O as [-> | ->]; [apply bytes_ok_store; [exact Hz|apply bytes_ok_tagged_put64]|exact Hz]).
      pose proof (bytes_ok_nth out 0 Bo) as Ho0.
      pose proof (tagged_get_width out 9 Ho0) as Wo.
      assert (Go9 : (tagged_getlen out <= 9)%N) by (unfold tagged_getlen; cbv zeta; kill_ifs; lia).
      specialize (Wo ltac:(lia)). rewrite G in Wo. cbn [fst] in Wo.
      assert (Lo : Z.of_N (tagged_getlen out) <= Z.of_nat (length out)).
      { rewrite <- Wo. destruct O as [O | O]; rewrite O.
        - rewrite store_0_length; pose proof (tagged_put_length_nat (of_s64 s)); pose proof (tagged_len_range (of_s64 s)).
          + destruct Hc as [Hc|Hc]; [specialize (H9 Hc); lia|lia].
          + destruct Hc as [Hc|Hc]; [specialize (H9 Hc); lia|lia].
        - rewrite O in Wo. lia. }
      rewrite src_varintTaggedGet64_is_model by (try assumption; lia). unfold get_result. rewrite G. cbn [fst snd].
      pose proof (tagged_len_range (of_s64 s)).
      destruct (tagged_len (of_s64 s) =? 0)%N eqn:Z0; [lia|].
      rewrite <- NV, Z2N.id by lia. reflexivity.
Qed.

(* C15: the adders are defined (never CUB / COob) on every admissible input *)
Lemma src_tagged_add_defined p add :
  bytes_ok p -> -9223372036854775808 <= add <= 9223372036854775807 ->
  Z.of_N (tagged_getlen p) <= Z.of_nat (length p) ->
  (exists w out, src_varintTaggedAddNoGrow p add = COk (w, out)) /\
  ((9 <= length p)%nat -> exists w out, src_varintTaggedAddGrow p add = COk (w, out)).
Proof.
  intros Hz Ha Hl. split.
  - eexists. eexists. apply src_varintTaggedAddNoGrow_is_model; assumption.
  - intro H9. eexists. eexists. apply src_varintTaggedAddGrow_is_model; assumption.
Qed.
