(* ConcArray2Float.v — C17 instances for the float codec (Float.v):
   varintFloatEncode / varintFloatDecode as concurrent calls on shared
   read-only inputs with caller-supplied outputs.

   Footprints.  Encode: the bytes written never exceed
   varintFloatMaxEncodedSize(count, precision) (C03_float_bound).  Decode:
   exactly count doubles are stored. *)
Require Import VV.Conc VV.ConcProofs VV.ConcCodec VV.ConcCodec2 VV.ConcArray.
Require Import VV.Base VV.BaseProofs VV.Float VV.FloatSizeProofs.
From Coq Require Import List NArith ZArith Arith Lia Bool ZifyBool ZifyN ZifyNat.
Import ListNotations.
Local Open Scope N_scope.

(* ---------------- varintFloatEncode(output, values, count, precision, mode) ----------------
   values: the bit patterns of n doubles, one uint64_t cell each, at src
   (shared); the pair is (precision, mode); result [bytes written] *)
Definition float_enc_fn (pm : N * N) (vs : list N) : list N * list N :=
  (fl_encode (map u64 vs) (fst pm) (snd pm), [N.of_nat (length (fl_encode (map u64 vs) (fst pm) (snd pm)))]).

Theorem float_encode_threads_safe (ps : list (io * (N * N))) (m0 : mem) :
  (forall p, In p ps -> N.of_nat (io_n (fst p)) < 288230376151711744) ->
  (forall i j pi pj, i <> j -> nth_error ps i = Some pi -> nth_error ps j = Some pj ->
     forall l, in_range (io_dst (fst pj))
                 (N.to_nat (fl_max_encoded_size (N.of_nat (io_n (fst pj))) (fst (snd pj)))) l ->
       ~ in_range (io_dst (fst pi))
           (N.to_nat (fl_max_encoded_size (N.of_nat (io_n (fst pi))) (fst (snd pi)))) l /\
       ~ in_range (io_src (fst pi)) (io_n (fst pi)) l) ->
  forall sched,
  let ths := map (fun p => prog1 (io_src (fst p)) (io_n (fst p)) (io_dst (fst p)) (float_enc_fn (snd p))) ps in
  ~ races (snd (crun sched (m0, ths))) /\
  forall i p r, nth_error ps i = Some p ->
    nth_error (snd (crun sched (m0, ths))) i = Some (Ret r) ->
    let res := float_enc_fn (snd p) (peek m0 (io_src (fst p)) (io_n (fst p))) in
    r = snd res /\
    forall j, (j < length (fst res))%nat ->
      fst (crun sched (m0, ths)) (io_dst (fst p) + N.of_nat j) = nth j (fst res) 0.
Proof.
  intros V AP sched.
  refine (family1_safe (io * (N * N)) (fun p => io_src (fst p)) (fun p => io_n (fst p))
            (fun p => io_dst (fst p))
            (fun p => N.to_nat (fl_max_encoded_size (N.of_nat (io_n (fst p))) (fst (snd p))))
            (fun p => float_enc_fn (snd p)) ps m0 _ AP sched).
  intros p Hp bs Hl. unfold float_enc_fn. cbn [fst].
  pose proof (fl_encode_bound (map u64 bs) (fst (snd p)) (snd (snd p)) (map_u64_ok bs)) as H.
  rewrite map_length, Hl in H. specialize (H (V p Hp)). lia.
Qed.

(* ---------------- varintFloatDecode(input, count, output) ----------------
   the encoding: n byte cells at src (shared); output: count uint64_t cells
   (bit patterns of doubles) at dst; result [1; bytes consumed], or [0] where
   the C is undefined (an exponent width outside 1..8, a mantissa width above
   64) — then nothing is modelled as written *)
Definition float_dec_fn (count : nat) (bs : list N) : list N * list N :=
  match fl_decode (map u8 bs) count with
  | Some (used, out) => (out, [1; used])
  | None => ([], [0])
  end.

Lemma fl_chunk_vals_length w count : forall bs, length (fl_chunk_vals w count bs) = count.
Proof.
  induction count as [|c IH]; intro bs; cbn [fl_chunk_vals length]; [reflexivity|].
  rewrite IH. reflexivity.
Qed.

Lemma fl_unpack_length w count z : length (fl_unpack w count z) = count.
Proof. unfold fl_unpack. apply fl_chunk_vals_length. Qed.

Lemma fl_assemble_length mb flags : forall signs exps pm sp,
  (length (fl_assemble mb flags signs exps pm sp) <= length flags)%nat.
Proof.
  induction flags as [|f ft IH]; intros signs exps pm sp; cbn [fl_assemble length].
  - lia.
  - destruct signs as [|s st]; [cbn [length]; lia|].
    destruct exps as [|e et]; [cbn [length]; lia|].
    destruct (f =? 0); cbn [length]; [pose proof (IH st et (tl pm) sp)|pose proof (IH st et pm (tl sp))]; lia.
Qed.

Lemma float_dec_fn_bound count bs : (length (fst (float_dec_fn count bs)) <= count)%nat.
Proof.
  unfold float_dec_fn.
  destruct (fl_decode (map u8 bs) count) as [[used out]|] eqn:E; cbn [fst length]; [|lia].
  unfold fl_decode in E. destruct count as [|c]; [injection E as _ <-; cbn [length]; lia|].
  cbv zeta in E.
  destruct (fl_dec_exps _ _ _) as [[exps k3]|]; [|discriminate].
  destruct (_ && _); [discriminate|].
  pose proof (f_equal (fun o => match o with Some (_, l) => length l | None => 0%nat end) E) as L.
  cbv beta iota in L. rewrite <- L.
  etransitivity; [apply fl_assemble_length|]. rewrite fl_unpack_length. lia.
Qed.

Theorem float_decode_threads_safe (ps : list (io * nat)) (m0 : mem) :
  (forall i j pi pj, i <> j -> nth_error ps i = Some pi -> nth_error ps j = Some pj ->
     forall l, in_range (io_dst (fst pj)) (snd pj) l ->
       ~ in_range (io_dst (fst pi)) (snd pi) l /\
       ~ in_range (io_src (fst pi)) (io_n (fst pi)) l) ->
  forall sched,
  let ths := map (fun p => prog1 (io_src (fst p)) (io_n (fst p)) (io_dst (fst p)) (float_dec_fn (snd p))) ps in
  ~ races (snd (crun sched (m0, ths))) /\
  forall i p r, nth_error ps i = Some p ->
    nth_error (snd (crun sched (m0, ths))) i = Some (Ret r) ->
    let res := float_dec_fn (snd p) (peek m0 (io_src (fst p)) (io_n (fst p))) in
    r = snd res /\
    forall j, (j < length (fst res))%nat ->
      fst (crun sched (m0, ths)) (io_dst (fst p) + N.of_nat j) = nth j (fst res) 0.
Proof.
  intros AP sched.
  refine (family1_safe (io * nat) (fun p => io_src (fst p)) (fun p => io_n (fst p))
            (fun p => io_dst (fst p)) (fun p => snd p)
            (fun p => float_dec_fn (snd p)) ps m0 _ AP sched).
  intros p _ bs _. apply float_dec_fn_bound.
Qed.
