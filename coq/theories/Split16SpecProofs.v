(* Split16SpecProofs.v — SplitFull16: the table specification's encoding denotes its value,
   is the shortest, and the decoder computes the denotation of every well-formed stream. *)
Require Import VV.Base VV.BaseProofs VV.Split VV.SplitSpec VV.SplitLemmas VV.SplitSpecLemmas VV.Split16Proofs.
From Coq Require Import Lia ZifyBool ZifyN ZifyNat.
Local Open Scope N_scope.
Ltac Zify.zify_post_hook ::= Z.div_mod_to_equations.

Lemma lv_match_split16 b0 : find (fun l => lv_match l b0) split16_table =
  if b0 / 64 =? 0 then Some (mk_level 0 Embed 1 0)
  else if b0 / 64 =? 1 then Some (mk_level 64 Embed 2 16383)
  else if b0 / 64 =? 2 then Some (mk_level 128 Embed 3 4210686)
  else if b0 =? 196 then Some (mk_level 196 Ext 4 1077952509)
  else if b0 =? 197 then Some (mk_level 197 Ext 5 1077952509)
  else if b0 =? 198 then Some (mk_level 198 Ext 6 1077952509)
  else if b0 =? 199 then Some (mk_level 199 Ext 7 1077952509)
  else if b0 =? 200 then Some (mk_level 200 Ext 8 1077952509)
  else None.
Proof. reflexivity. Qed.

Theorem split16_shortest b x : bytes_ok b -> split16_denote b = Some x ->
  split16_length x <= N.of_nat (length b).
Proof.
  intro Hb. destruct b as [|b0 rest]; [discriminate|].
  assert (Hrest : bytes_ok rest) by (inversion Hb; assumption). clear Hb.
  unfold split16_denote, lv_denote. rewrite lv_match_split16.
  do 8 (step; [finish_short split16_length_chain split16_len_chain|]).
  discriminate.
Qed.

Theorem split16_denote_spec x : x < 18446744073709551616 -> split16_denote (split16_spec x) = Some x.
Proof.
  intro Hx. destruct (split16_classify x Hx) as [H|H|H|k Hk H Hw Hlt Hge].
  - rewrite split16_spec_0 by exact H. unfold split16_denote, lv_denote. rewrite lv_match_split16.
    destruct (x / 256 / 64 =? 0) eqn:E; [|lia]. finish_den. kill_ifs. f_equal. lia.
  - rewrite split16_spec_1 by exact H. unfold split16_denote, lv_denote. rewrite lv_match_split16.
    destruct ((64 + (x - 16383) / 65536) / 64 =? 0) eqn:E; [lia|].
    destruct ((64 + (x - 16383) / 65536) / 64 =? 1) eqn:E1; [|lia]. finish_den. kill_ifs. f_equal. lia.
  - rewrite split16_spec_2 by exact H. unfold split16_denote, lv_denote. rewrite lv_match_split16.
    destruct ((128 + (x - 4210686) / 16777216) / 64 =? 0) eqn:E; [lia|].
    destruct ((128 + (x - 4210686) / 16777216) / 64 =? 1) eqn:E1; [lia|].
    destruct ((128 + (x - 4210686) / 16777216) / 64 =? 2) eqn:E2; [|lia].
    finish_den. kill_ifs. f_equal. lia.
  - rewrite (split16_spec_var x k) by (assumption || lia).
    pose proof (of_le_le_bytes_small k (x - 1077952509) Hlt) as V.
    unfold split16_denote, lv_denote. rewrite lv_match_split16. clear Hw Hge.
    assert (C : (k = 4 \/ k = 5 \/ k = 6 \/ k = 7 \/ k = 8)%nat) by lia.
    destruct C as [C|[C|[C|[C|C]]]]; subst k;
      match goal with |- context [192 + N.of_nat ?n] =>
        let r := eval vm_compute in (192 + N.of_nat n) in change (192 + N.of_nat n) with r end;
      cbv beta iota; cbn [N.div N.eqb Pos.eqb];
      repeat (step; [try discriminate|try discriminate]).
    all: try (finish_den; rewrite V; kill_ifs; f_equal; lia).
Qed.

Theorem split16_spec_injective x y : x < 18446744073709551616 -> y < 18446744073709551616 ->
  split16_spec x = split16_spec y -> x = y.
Proof.
  intros Hx Hy E. pose proof (split16_denote_spec x Hx) as A. rewrite E, (split16_denote_spec y Hy) in A.
  congruence.
Qed.

Theorem split16_get_denote pre b tl x : bytes_ok b -> split16_denote b = Some x ->
  split16_get_at (pre ++ b ++ tl) (Z.of_nat (length pre)) = Some (N.of_nat (length b), x).
Proof.
  intro Hb. destruct b as [|b0 rest]; [discriminate|].
  assert (Hrest : bytes_ok rest) by (inversion Hb; assumption). clear Hb.
  unfold split16_denote, lv_denote. rewrite lv_match_split16.
  step.
  { open_level. destruct rest as [|r [|]]; try discriminate. subst x.
    unfold of_be. cbn [of_le rev app]. norm256.
    assert (Hr : r < 256) by (inversion Hrest; assumption).
    destruct (split16_get_0 pre tl b0 r) as (A & _); [lia|lia|]. cbn [app] in A |- *. rewrite A.
    f_equal. f_equal. lia. }
  step.
  { open_level. destruct rest as [|r [|s [|]]]; try discriminate. subst x.
    unfold of_be. cbn [of_le rev app]. norm256.
    assert (Hr : r < 256) by (inversion Hrest; assumption).
    assert (Hs : s < 256) by (inversion Hrest as [|? ? ? H2]; inversion H2; assumption).
    replace b0 with (64 + b0 mod 64) at 1 by lia.
    destruct (split16_get_1 pre tl (b0 mod 64) r s) as (A & _); [lia|lia|lia|]. cbn [app] in A |- *. rewrite A.
    f_equal. f_equal. lia. }
  step.
  { open_level. destruct rest as [|r [|s [|t [|]]]]; try discriminate. subst x.
    unfold of_be. cbn [of_le rev app]. norm256.
    assert (Hr : r < 256) by (inversion Hrest; assumption).
    assert (Hs : s < 256) by (inversion Hrest as [|? ? ? H2]; inversion H2; assumption).
    assert (Ht : t < 256) by (inversion Hrest as [|? ? ? H2]; inversion H2 as [|? ? ? H3]; inversion H3; assumption).
    replace b0 with (128 + b0 mod 64) at 1 by lia.
    destruct (split16_get_2 pre tl (b0 mod 64) r s t) as (A & _); [lia|lia|lia|lia|]. cbn [app] in A |- *. rewrite A.
    f_equal. f_equal. lia. }
  do 5 (step; [fin_ext split16_get_var|]).
  discriminate.
Qed.
