(* External.v — Gallina model of src/varintExternal.{c,h},
   src/varintExternalBigEndian.{c,h} and VARINT_ADD_OR_ABORT_OVERFLOW_ of
   src/varint.h, as compiled for a little-endian host (endianIsLittle() is
   true; the big-endian-host branches are dead code here and not modelled).
   Widths 1..8 only (the __uint128_t `Big` entry points are out of scope).

   One definition per C function / macro, same case structure.  A width
   outside the cases of the C switch is `None`: the little-endian copy runs
   into `assert(NULL); __builtin_unreachable()` (undefined behaviour with
   NDEBUG, abort otherwise; widths 9..16 would besides read past the 8-byte
   source), the big-endian copy into `assert(NULL)` (abort, or nothing
   written with NDEBUG).  Widths are `nat` (they are lengths / indices). *)
Require Import VV.Base.
Local Open Scope N_scope.

(* byte i of the object representation of a uint64_t v (src[i] with
   src = the address of v as a byte pointer) on a little-endian host *)
Definition src_byte (v : N) (i : nat) : N := u8 (shr v (8 * N.of_nat i)).

(* varintExternalUnsignedEncoding(value, encoding) and
   varintExternalBigEndianUnsignedEncoding: encoding = 1;
   while ((v >>= 8) != 0) encoding++;   — this is Base.ext_width *)
Definition ext_unsigned_encoding (v : N) : nat := ext_width v.

(* varintExternalCopyToEncodingLittleEndian_(dst, src, encoding): `s i` is
   src[i]; the result lists dst[0..encoding-1] (the only bytes written).
   Case order as in the C switch (the fallthrough chains are expanded). *)
Definition ext_copy_le (s : nat -> N) (w : nat) : option (list N) :=
  match w with
  | 1%nat => Some [s 0%nat]
  | 2%nat => Some [s 0%nat; s 1%nat]
  | 4%nat => Some [s 0%nat; s 1%nat; s 2%nat; s 3%nat]
  | 3%nat => Some [s 0%nat; s 1%nat; s 2%nat]
  | 7%nat => Some [s 0%nat; s 1%nat; s 2%nat; s 3%nat; s 4%nat; s 5%nat; s 6%nat]
  | 6%nat => Some [s 0%nat; s 1%nat; s 2%nat; s 3%nat; s 4%nat; s 5%nat]
  | 5%nat => Some [s 0%nat; s 1%nat; s 2%nat; s 3%nat; s 4%nat]
  | 8%nat => (* memcpy(dst, src, sizeof(uint64_t)) *)
      Some [s 0%nat; s 1%nat; s 2%nat; s 3%nat; s 4%nat; s 5%nat; s 6%nat; s 7%nat]
  | _ => None
  end.

(* varintExternalCopyUsedBytesLittleEndian_ = varintExternalPut on this host.
   The width handed to the copy is ext_width v, which is always 1..8
   (ExternalProofs.ext_put_defined), so the `None` arm is dead. *)
Definition ext_put (v : N) : list N :=
  match ext_copy_le (src_byte v) (ext_unsigned_encoding v) with
  | Some l => l
  | None => []
  end.

(* varintExternalPutFixedWidth(p, v, encoding) *)
Definition ext_put_fixed (v : N) (w : nat) : option (list N) :=
  ext_copy_le (src_byte v) w.

(* varintExternalLoadFromEncodingLittleEndian_ = varintExternalGet:
   uint64_t result = 0; copy `encoding` bytes of src over its low bytes *)
Definition ext_get (z : list N) (w : nat) : option N :=
  match ext_copy_le (byte_at z) w with
  | Some l => Some (of_le l)
  | None => None
  end.

(* varintExternalSignedEncoding(int64_t value): negative values hit
   assert + __builtin_unreachable *)
Definition ext_signed_encoding (value : Z) : option nat :=
  if (value <? 0)%Z then None else Some (ext_unsigned_encoding (of_s64 value)).

(* varintExternalUnsignedLen(uint64_t) and the macro
   varintExternalLen(v) = varintExternalUnsignedLen((uint64_t)(v)) *)
Definition ext_unsigned_len (v : N) : nat := ext_unsigned_encoding v.
Definition ext_len (v : N) : nat := ext_unsigned_len (u64 v).

(* ---- quick macros (instantiated with a uint64_t `val`) ---- *)

(* varintExternalPutFixedWidthQuick_(dst, val, encoding); the stores convert
   `(val >> k) & 0xff` to uint8_t *)
Definition ext_putq (v : N) (w : nat) : option (list N) :=
  match w with
  | 1%nat => Some [u8 v]
  | 3%nat => Some [u8 (N.land v 255); u8 (N.land (shr v 8) 255); u8 (N.land (shr v 16) 255)]
  | 2%nat => Some [u8 (N.land v 255); u8 (N.land (shr v 8) 255)]
  | _ => ext_put_fixed v w
  end.

(* varintExternalPutFixedWidthQuickMedium_ *)
Definition ext_putq_medium (v : N) (w : nat) : option (list N) :=
  match w with
  | 3%nat => Some [u8 (N.land v 255); u8 (N.land (shr v 8) 255); u8 (N.land (shr v 16) 255)]
  | 2%nat => Some [u8 (N.land v 255); u8 (N.land (shr v 8) 255)]
  | _ => ext_put_fixed v w
  end.

(* varintExternalGetQuick_(src, width, result), result a uint64_t *)
Definition ext_getq (z : list N) (w : nat) : option N :=
  let s i := byte_at z i in
  match w with
  | 1%nat => Some (s 0%nat)
  | 2%nat => Some (N.lor (shl64 (s 1%nat) 8) (s 0%nat))
  | 3%nat => Some (N.lor (N.lor (shl64 (s 2%nat) 16) (shl64 (s 1%nat) 8)) (s 0%nat))
  | _ => ext_get z w
  end.

(* varintExternalGetQuickMedium_ *)
Definition ext_getq_medium (z : list N) (w : nat) : option N :=
  let s i := byte_at z i in
  match w with
  | 3%nat => Some (N.lor (N.lor (shl64 (s 2%nat) 16) (shl64 (s 1%nat) 8)) (s 0%nat))
  | 2%nat => Some (N.lor (shl64 (s 1%nat) 8) (s 0%nat))
  | _ => ext_get z w
  end.

(* `(src)[i] << k` with (src)[i] a uint8_t promoted to int: at most
   255 << 16 < 2^31, no overflow possible, hence no wrap to write. *)
Definition shl_int (b k : N) : N := b * 2 ^ k.

(* varintExternalGetQuickMediumReturnValue_(src, width): the int expression
   is cast to uint32_t / uint16_t, then the ?: converts to uint64_t *)
Definition ext_getq_medium_rv (z : list N) (w : nat) : option N :=
  let s i := byte_at z i in
  if Nat.eqb w 3 then
    Some (u32 (N.lor (N.lor (shl_int (s 2%nat) 16) (shl_int (s 1%nat) 8)) (s 0%nat)))
  else if Nat.eqb w 2 then
    Some (u16 (N.lor (shl_int (s 1%nat) 8) (s 0%nat)))
  else ext_get z w.

(* ---- big-endian storage (varintExternalBigEndian.c), little-endian host ---- *)

(* _varintExternalBigEndianCopyToEncodingLittleEndian(dst, src, encoding):
   dst[encoding-1-i] = src[i]; width 8 is a 64-bit load, __builtin_bswap64,
   64-bit store, i.e. the same reversal on 8 bytes. *)
Definition ext_copy_be (s : nat -> N) (w : nat) : option (list N) :=
  match w with
  | 1%nat => Some [s 0%nat]
  | 2%nat => Some [s 1%nat; s 0%nat]
  | 4%nat => Some [s 3%nat; s 2%nat; s 1%nat; s 0%nat]
  | 3%nat => Some [s 2%nat; s 1%nat; s 0%nat]
  | 7%nat => Some [s 6%nat; s 5%nat; s 4%nat; s 3%nat; s 2%nat; s 1%nat; s 0%nat]
  | 6%nat => Some [s 5%nat; s 4%nat; s 3%nat; s 2%nat; s 1%nat; s 0%nat]
  | 5%nat => Some [s 4%nat; s 3%nat; s 2%nat; s 1%nat; s 0%nat]
  | 8%nat => Some [s 7%nat; s 6%nat; s 5%nat; s 4%nat; s 3%nat; s 2%nat; s 1%nat; s 0%nat]
  | _ => None
  end.

(* varintExternalBigEndianPut *)
Definition extbe_put (v : N) : list N :=
  match ext_copy_be (src_byte v) (ext_unsigned_encoding v) with
  | Some l => l
  | None => []
  end.

(* varintExternalBigEndianPutFixedWidth *)
Definition extbe_put_fixed (v : N) (w : nat) : option (list N) :=
  ext_copy_be (src_byte v) w.

(* varintExternalBigEndianGet: result = 0; resarr[encoding-1-i] = src[i] *)
Definition extbe_get (z : list N) (w : nat) : option N :=
  match ext_copy_be (byte_at z) w with
  | Some l => Some (of_le l)
  | None => None
  end.

(* varintExternalBigEndianPutFixedWidthQuick_ *)
Definition extbe_putq (v : N) (w : nat) : option (list N) :=
  match w with
  | 1%nat => Some [u8 v]
  | 3%nat => Some [u8 (N.land (shr v 16) 255); u8 (N.land (shr v 8) 255); u8 (N.land v 255)]
  | 2%nat => Some [u8 (N.land (shr v 8) 255); u8 (N.land v 255)]
  | _ => extbe_put_fixed v w
  end.

(* varintExternalBigEndianGetQuick_ *)
Definition extbe_getq (z : list N) (w : nat) : option N :=
  let s i := byte_at z i in
  match w with
  | 1%nat => Some (s 0%nat)
  | 2%nat => Some (N.lor (shl64 (s 0%nat) 8) (s 1%nat))
  | 3%nat => Some (N.lor (N.lor (shl64 (s 0%nat) 16) (shl64 (s 1%nat) 8)) (s 2%nat))
  | _ => extbe_get z w
  end.

(* ---- signed-storage helpers ----
   varintPrepareSigned_(val, width) / varintRestoreSigned_(result, width) on a
   signed lvalue of `bits` bits (int32_t for the 24-bit forms, int64_t for
   40/48/56).  `-(val)` on the minimum value is signed overflow: None.
   `(val) ^= (1ULL << k)`: val is converted to unsigned long long (sign
   extension), xor-ed, and converted back to the `bits`-bit signed type
   (modular, as gcc/clang define it). *)
Definition to_sbits (bits : N) (x : N) : Z :=
  let m := x mod 2 ^ bits in
  if m <? 2 ^ (bits - 1) then Z.of_N m else (Z.of_N m - Z.of_N (2 ^ bits))%Z.

Definition sign_bit_offset (w : N) : N := w * 8 - 1.

Definition xor_assign_ull (bits : N) (val : Z) (k : N) : Z :=
  to_sbits bits (N.lxor (of_s64 val) (shl64 1 k)).

Definition min_sbits (bits : N) : Z := (- Z.of_N (2 ^ (bits - 1)))%Z.

Definition prepare_signed (bits w : N) (val : Z) : option Z :=
  if (val <? 0)%Z then
    if (val =? min_sbits bits)%Z then None
    else Some (xor_assign_ull bits (- val)%Z (sign_bit_offset w))
  else Some val.

(* `((result) >> k) & 0x01` on a signed result: arithmetic shift *)
Definition restore_signed (bits w : N) (result : Z) : option Z :=
  let k := sign_bit_offset w in
  if negb (Z.land (Z.shiftr result (Z.of_N k)) 1 =? 0)%Z then
    let r1 := xor_assign_ull bits result k in
    if (r1 =? min_sbits bits)%Z then None else Some (- r1)%Z
  else Some result.

Definition prepare_signed_32to24 := prepare_signed 32 3.
Definition restore_signed_24to32 := restore_signed 32 3.
Definition prepare_signed_64to40 := prepare_signed 64 5.
Definition restore_signed_40to64 := restore_signed 64 5.
Definition prepare_signed_64to48 := prepare_signed 64 6.
Definition restore_signed_48to64 := restore_signed 64 6.
Definition prepare_signed_64to56 := prepare_signed 64 7.
Definition restore_signed_56to64 := restore_signed 64 7.

(* the helper selected by a storage width (3,5,6,7), as a user would *)
Definition prepare_w (w : nat) (val : Z) : option Z :=
  match w with
  | 3%nat => prepare_signed_32to24 val
  | 5%nat => prepare_signed_64to40 val
  | 6%nat => prepare_signed_64to48 val
  | 7%nat => prepare_signed_64to56 val
  | _ => None
  end.
Definition restore_w (w : nat) (r : Z) : option Z :=
  match w with
  | 3%nat => restore_signed_24to32 r
  | 5%nat => restore_signed_40to64 r
  | 6%nat => restore_signed_48to64 r
  | 7%nat => restore_signed_56to64 r
  | _ => None
  end.

(* ---- varintExternalAdd_(p, origEncoding, add, force) ----
   returns (returned width, buffer afterwards); width 0 = VARINT_WIDTH_INVALID
   from VARINT_ADD_OR_ABORT_OVERFLOW_ (__builtin_saddll_overflow: the
   mathematical sum is outside int64_t). *)
Definition external_add (p : list N) (w : nat) (add : Z) (force : bool)
  : option (nat * list N) :=
  match ext_get p w with
  | None => None
  | Some retrieve =>
      let updating := to_s64 retrieve in
      let sum := (updating + add)%Z in
      if negb (in_s64 sum) then Some (0%nat, p)
      else
        let nv := of_s64 sum in
        let newenc := ext_unsigned_encoding nv in
        if (w <? newenc)%nat && negb force then Some (newenc, p)
        else Some (newenc, store p 0 (ext_put nv))
  end.

(* EXTRACT: ext_unsigned_encoding ext_put ext_put_fixed ext_get ext_signed_encoding
   ext_unsigned_len ext_len ext_putq ext_putq_medium ext_getq ext_getq_medium
   ext_getq_medium_rv extbe_put extbe_put_fixed extbe_get extbe_putq extbe_getq
   prepare_w restore_w prepare_signed restore_signed to_sbits external_add *)
