(* ConcPackedBits.v — C17 for varintBitstreamSet (Bitstream.v) on a stream that
   several threads share: a Set at (offset, width) READS and WRITES exactly
   the words `bs_touched W offset width` (one word, or two consecutive words:
   by C11_access_exact the words that hold a bit of [offset, offset + width)).
   The stream lives in memory one cell per word (cell base + k holds word k).

   `bitstream_set_threads_safe`: Sets that share no word never race, under any
   schedule, and each leaves in its words what it computes alone from their
   initial contents.  Two Sets of different bit ranges inside the SAME word are
   NOT covered, and are not safe — the same unsynchronised read-modify-write as
   for packed arrays (ConcPacked.packed_same_slot_races); `bitstream_same_word_races`
   exhibits it.  `bitstream_set_exact` ties the call's function to bs_set on the
   whole stream. *)
Require Import VV.Base VV.BaseProofs VV.Packed VV.Bitstream VV.BitstreamLemmas VV.BitstreamProofs.
Require Import VV.Conc VV.ConcProofs VV.ConcCodec VV.ConcCodec2 VV.ConcArray VV.ConcPacked.
From Coq Require Import List NArith Arith Lia Bool ZifyBool ZifyN ZifyNat.
Import ListNotations.
Local Open Scope N_scope.

(* a Set of the width-n value v at bit offset off of the stream of W-bit words
   (value type of V bits) at base *)
Record bcall := mk_bcall { bc_base : loc; bc_W : N; bc_V : N; bc_off : N; bc_n : N; bc_v : N }.

Definition bs_words (W off n : N) : list N := map N.of_nat (bs_touched W off n).
Definition bc_words (p : bcall) : list N := bs_words (bc_W p) (bc_off p) (bc_n p).

(* varintBitstreamSet on a stream in which every touched word exists *)
Definition bs_op (W V off n v : N) (s : list N) : list N :=
  match bs_set W V s off n v with Some s' => s' | None => s end.

(* result [1], or [0] where the C is undefined (bitsPerValue outside 1..W, or
   a value type narrower than the word) — then nothing is modelled as written *)
Definition bitstream_set_fn (W V off n v : N) (bs : list N) : list N * list N :=
  if bs_ok W V n then (fst (slots_fn W (bs_words W off n) (bs_op W V off n v) bs), [1])
  else ([], [0]).

Lemma bs_words_shape W off n :
  let q := N.of_nat (N.to_nat (off / W)) in
  bs_words W off n = [q] \/ bs_words W off n = [q; q + 1].
Proof.
  unfold bs_words, bs_touched. cbv zeta. destruct (n <=? W - off mod W); cbn [map]; [left; reflexivity|].
  right. f_equal. f_equal. lia.
Qed.

Lemma bs_words_consecutive W off n : consecutive (bs_words W off n).
Proof. exact (consecutive_shape _ _ (bs_words_shape W off n)). Qed.

Theorem bitstream_set_threads_safe (ps : list bcall) (m0 : mem) :
  (forall i j pi pj, i <> j -> nth_error ps i = Some pi -> nth_error ps j = Some pj ->
     forall ki kj, In ki (bc_words pi) -> In kj (bc_words pj) -> bc_base pi + ki <> bc_base pj + kj) ->
  forall sched,
  let ths := map (fun p => slots_prog (bc_base p) (bc_words p)
                             (bitstream_set_fn (bc_W p) (bc_V p) (bc_off p) (bc_n p) (bc_v p))) ps in
  ~ races (snd (crun sched (m0, ths))) /\
  forall i p r, nth_error ps i = Some p ->
    nth_error (snd (crun sched (m0, ths))) i = Some (Ret r) ->
    let lo := bc_base p + hd 0 (bc_words p) in
    let res := bitstream_set_fn (bc_W p) (bc_V p) (bc_off p) (bc_n p) (bc_v p)
                 (peek m0 lo (length (bc_words p))) in
    r = snd res /\
    forall j, (j < length (fst res))%nat ->
      fst (crun sched (m0, ths)) (lo + N.of_nat j) = nth j (fst res) 0.
Proof.
  intros HD sched.
  refine (slots_threads_safe bcall bc_base bc_words
            (fun p => bitstream_set_fn (bc_W p) (bc_V p) (bc_off p) (bc_n p) (bc_v p)) ps m0 _ _ HD sched).
  - intros p _. apply bs_words_consecutive.
  - intros p _ bs _. unfold bitstream_set_fn, bc_words.
    destruct (bs_ok (bc_W p) (bc_V p) (bc_n p)); cbv iota; cbn [fst]; [rewrite slots_fn_length|cbn [length]]; lia.
Qed.

(* the same with the words named by C11_access_exact: for admissible
   parameters the touched words are those holding a bit of [off, off + n), so
   Sets whose bit ranges lie in different words can run concurrently *)
Theorem bitstream_set_threads_safe_by_bits (ps : list bcall) (m0 : mem) :
  (forall p, In p ps -> 1 <= bc_n p /\ bc_n p <= bc_W p /\ bc_W p <= bc_V p /\ bc_V p <= 64) ->
  (forall i j pi pj, i <> j -> nth_error ps i = Some pi -> nth_error ps j = Some pj ->
     forall bi bj, bc_off pi <= bi < bc_off pi + bc_n pi -> bc_off pj <= bj < bc_off pj + bc_n pj ->
       bc_base pi + bi / bc_W pi <> bc_base pj + bj / bc_W pj) ->
  forall sched,
  let ths := map (fun p => slots_prog (bc_base p) (bc_words p)
                             (bitstream_set_fn (bc_W p) (bc_V p) (bc_off p) (bc_n p) (bc_v p))) ps in
  ~ races (snd (crun sched (m0, ths))) /\
  forall i p r, nth_error ps i = Some p ->
    nth_error (snd (crun sched (m0, ths))) i = Some (Ret r) ->
    let lo := bc_base p + hd 0 (bc_words p) in
    let res := bitstream_set_fn (bc_W p) (bc_V p) (bc_off p) (bc_n p) (bc_v p)
                 (peek m0 lo (length (bc_words p))) in
    r = snd res /\
    forall j, (j < length (fst res))%nat ->
      fst (crun sched (m0, ths)) (lo + N.of_nat j) = nth j (fst res) 0.
Proof.
  intros HA HD. apply bitstream_set_threads_safe.
  intros i j pi pj NE Hi Hj ki kj Ki Kj.
  destruct (HA pi (nth_error_In _ _ Hi)) as (A1 & A2 & A3 & A4).
  destruct (HA pj (nth_error_In _ _ Hj)) as (B1 & B2 & B3 & B4).
  unfold bc_words, bs_words in Ki, Kj. apply in_map_iff in Ki, Kj.
  destruct Ki as (ki' & <- & Ki). destruct Kj as (kj' & <- & Kj).
  destruct (c11_access_exact (bc_W pi) (bc_V pi) [] (bc_off pi) (bc_n pi) 0 A1 A2 A3 A4) as (Ti & _).
  destruct (c11_access_exact (bc_W pj) (bc_V pj) [] (bc_off pj) (bc_n pj) 0 B1 B2 B3 B4) as (Tj & _).
  apply Ti in Ki. apply Tj in Kj. destruct Ki as (bi & Ri & <-). destruct Kj as (bj & Rj & <-).
  rewrite !N2Nat.id. exact (HD i j pi pj NE Hi Hj bi bj Ri Rj).
Qed.

(* ------------------------------------------------------------------ *)
(* against bs_set on the whole stream *)
Lemma slot_at_of_nat s q : slot_at s (N.of_nat q) = nth q s 0.
Proof. unfold slot_at. rewrite Nat2N.id. reflexivity. Qed.

Lemma bs_op_local W V off n v : local_on (bs_words W off n) (bs_op W V off n v).
Proof.
  unfold local_on, bs_op, bs_words, bs_set, bs_touched. cbv zeta.
  set (q := N.to_nat (off / W)).
  destruct (negb (bs_ok W V n)).
  { split; [reflexivity|]. split; [reflexivity|]. intros a b H k Hk. apply (H k Hk). }
  destruct (n <=? W - off mod W); cbn [map]; (split; [|split]).
  - intro a. destruct (nth_error a q) eqn:E; [|reflexivity].
    apply length_upd. exact (proj1 (nth_error_Some_nth _ _ _ 0 E)).
  - intros a j Hj. destruct (nth_error a q) eqn:E; [|reflexivity].
    unfold slot_at. apply nth_upd_other; [exact (proj1 (nth_error_Some_nth _ _ _ 0 E))|].
    intro Eq. apply Hj. left. lia.
  - intros a b H k Hk. in_slots Hk. destruct (H _ (or_introl eq_refl)) as (La & Lb & E).
    rewrite !slot_at_of_nat in *.
    rewrite (nth_error_nth' a 0) by lia. rewrite (nth_error_nth' b 0) by lia.
    rewrite !nth_upd_same by lia. rewrite E. reflexivity.
  - intro a. destruct (nth_error a q) eqn:E0; [|reflexivity].
    destruct (nth_error a (S q)) eqn:E1; [|reflexivity].
    pose proof (proj1 (nth_error_Some_nth _ _ _ 0 E0)). pose proof (proj1 (nth_error_Some_nth _ _ _ 0 E1)).
    rewrite !length_upd; [reflexivity|lia|rewrite length_upd; lia].
  - intros a j Hj. destruct (nth_error a q) eqn:E0; [|reflexivity].
    destruct (nth_error a (S q)) eqn:E1; [|reflexivity].
    pose proof (proj1 (nth_error_Some_nth _ _ _ 0 E0)). pose proof (proj1 (nth_error_Some_nth _ _ _ 0 E1)).
    unfold slot_at. cbn [In] in Hj.
    rewrite nth_upd_other; [|rewrite length_upd; lia|intro Eq; apply Hj; right; left; lia].
    apply nth_upd_other; [lia|]. intro Eq. apply Hj. left. lia.
  - intros a b H k Hk.
    destruct (H _ (or_introl eq_refl)) as (La0 & Lb0 & E0).
    destruct (H _ (or_intror (or_introl eq_refl))) as (La1 & Lb1 & E1).
    rewrite !slot_at_of_nat in *.
    rewrite (nth_error_nth' a 0) by lia. rewrite (nth_error_nth' b 0) by lia.
    rewrite (nth_error_nth' a 0) by lia. rewrite (nth_error_nth' b 0) by lia.
    rewrite E0, E1. in_slots Hk; rewrite !slot_at_of_nat.
    + rewrite !(nth_upd_other _ (S q) q) by (rewrite ?length_upd; lia).
      rewrite !nth_upd_same by lia. reflexivity.
    + rewrite !nth_upd_same by (rewrite length_upd; lia). reflexivity.
Qed.

(* varintBitstreamSet on the whole stream s: it keeps its length, changes in
   the touched words only, and holds there what the call computes from their
   old contents *)
Theorem bitstream_set_exact W V s off n v s' :
  Forall (fun w => w < 2 ^ W) s -> bs_set W V s off n v = Some s' ->
  let ks := bs_words W off n in
  length s' = length s /\
  (forall j, ~ In j ks -> slot_at s' j = slot_at s j) /\
  (forall t, (t < length ks)%nat ->
     slot_at s' (nth t ks 0) = nth t (fst (bitstream_set_fn W V off n v (slots_of ks s))) 0).
Proof.
  intros WF E ks.
  assert (Hok : bs_ok W V n = true).
  { unfold bs_set in E. destruct (bs_ok W V n); [reflexivity|discriminate]. }
  assert (IN : forall k, In k ks -> k < N.of_nat (length s)).
  { intros k Hk. unfold ks, bs_words in Hk. apply in_map_iff in Hk. destruct Hk as (k' & <- & Hk).
    pose proof (proj2 (bs_set_defined W V s off n v Hok) (ex_intro _ s' E) k' Hk). lia. }
  pose proof (slots_fn_exact W ks (bs_op W V off n v) s (bs_op_local W V off n v)
                (bs_words_consecutive W off n) WF IN) as X.
  unfold bs_op at 1 2 3 in X. rewrite E in X. unfold bitstream_set_fn. rewrite Hok. exact X.
Qed.

(* ------------------------------------------------------------------ *)
(* NOT covered, and not safe: two Sets inside the SAME word (bits 0..3 and
   4..7 of word 0 of a stream of 8-bit words) *)
Definition same_word_threads : list prog :=
  map (fun p => slots_prog (bc_base p) (bc_words p)
                  (bitstream_set_fn (bc_W p) (bc_V p) (bc_off p) (bc_n p) (bc_v p)))
      [mk_bcall 0 8 8 0 4 10; mk_bcall 0 8 8 4 4 11].

Lemma bitstream_same_word_races : races (snd (crun [0%nat] (mem_list [0], same_word_threads))).
Proof.
  unfold races. exists 0%nat, 1%nat.
  eexists. eexists. exists 0, true, false.
  split; [discriminate|]. split; [reflexivity|]. split; [reflexivity|].
  split; [reflexivity|]. split; [reflexivity|]. left; reflexivity.
Qed.

Lemma bitstream_same_word_lost_update :
  fst (crun [0; 0; 1; 1]%nat (mem_list [0], same_word_threads)) 0 = 171 /\
  fst (crun [1; 1; 0; 0]%nat (mem_list [0], same_word_threads)) 0 = 171 /\
  fst (crun [0; 1; 0; 1]%nat (mem_list [0], same_word_threads)) 0 = 11 /\
  snd (crun [0; 1; 0; 1]%nat (mem_list [0], same_word_threads)) = [Ret [1]; Ret [1]].
Proof. vm_compute. repeat split; reflexivity. Qed.
