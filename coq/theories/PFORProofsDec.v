(* PFORProofsDec.v — the decoders on the encoder's output: value loop,
   exception loop, header reader, full decode (both entry paths), random
   access. *)
Require Import VV.Base VV.BaseProofs VV.Tagged VV.TaggedProofs VV.TaggedSpecProofs
  VV.PFOR VV.PFORSpec VV.PFORLemmas VV.PFORProofs.
From Coq Require Import Lia ZifyBool ZifyN ZifyNat.
Local Open Scope N_scope.
Ltac Zify.zify_post_hook ::= Z.div_mod_to_equations.

Section WithMeta.
  Variable m : pfor_meta.
  Variable xs0 : list N.
  Variable w : nat.
  Hypothesis MO : meta_ok m xs0 w.
  Hypothesis OK : u64ok xs0.

  Let isx := pfor_is_exc (pm_min m) (pm_tv m) (pm_marker m).

  Lemma slot_length v : length (pfor_slot m v) = w.
  Proof.
    unfold pfor_slot. rewrite (mo_width _ _ _ MO), Nat2N.id.
    destruct (pfor_is_exc _ _ _ v); apply length_le_bytes.
  Qed.

  Lemma body_length xs : N.of_nat (length (flat_map (pfor_slot m) xs)) = N.of_nat (length xs) * N.of_nat w.
  Proof.
    induction xs as [|v t IH]; [reflexivity|].
    cbn [flat_map length]. rewrite app_length, slot_length. lia.
  Qed.

  Lemma slot_drop v tl : dropN (pfor_slot m v ++ tl) (pm_width m) = tl.
  Proof. apply dropN_app_length'. rewrite slot_length. apply (mo_width _ _ _ MO). Qed.

  Lemma slot_read v tl : In v xs0 ->
    pfor_get_ext (pfor_slot m v ++ tl) (pm_width m)
    = POk (if isx v then pm_marker m else v - pm_min m).
  Proof.
    intro Hv. pose proof (mo_w _ _ _ MO) as Hw.
    unfold pfor_slot. rewrite (mo_width _ _ _ MO), Nat2N.id. fold isx.
    destruct (isx v) eqn:E.
    - rewrite pfor_get_ext_le by assumption. f_equal. apply N.mod_small.
      apply (marker_lt m xs0 w MO).
    - destruct (regular_offset m xs0 w MO OK v Hv E) as (A & B & C & D).
      rewrite pfor_get_ext_le by assumption. rewrite A. f_equal. apply N.mod_small. exact B.
  Qed.

  Lemma masked_value v : In v xs0 ->
    (if (if isx v then pm_marker m else v - pm_min m) =? pm_marker m then U64MAX
     else add64 (pm_min m) (if isx v then pm_marker m else v - pm_min m)) = pfor_masked m v.
  Proof.
    intro Hv. unfold pfor_masked. fold isx. destruct (isx v) eqn:E.
    - rewrite N.eqb_refl. reflexivity.
    - destruct (regular_offset m xs0 w MO OK v Hv E) as (A & B & C & D).
      pose proof (in64 xs0 OK v Hv) as H64.
      destruct (v - pm_min m =? pm_marker m) eqn:E2; [lia|]. unfold add64.
      replace (pm_min m + (v - pm_min m)) with v by lia. apply N.mod_small. exact H64.
  Qed.

  (* the value loop reads the slots and stops exactly behind them *)
  Lemma dec_values_ok xs : (forall v, In v xs -> In v xs0) ->
    forall fuel tl, (length xs <= fuel)%nat ->
    pfor_dec_values fuel m (N.of_nat (length xs)) (flat_map (pfor_slot m) xs ++ tl)
    = POk (map (pfor_masked m) xs, tl).
  Proof.
    induction xs as [|v t IH]; intros Hin fuel tl Hf.
    - destruct fuel; reflexivity.
    - destruct fuel as [|f]; [cbn [length] in Hf; lia|].
      cbn [flat_map]. rewrite <- app_assoc.
      cbn [pfor_dec_values].
      destruct (N.of_nat (length (v :: t)) =? 0) eqn:E0; [cbn [length] in E0; lia|].
      rewrite slot_read by (apply Hin; left; reflexivity).
      rewrite slot_drop.
      replace (N.of_nat (length (v :: t)) - 1) with (N.of_nat (length t)) by (cbn [length]; lia).
      rewrite IH by (try (intros; apply Hin; right; assumption); cbn [length] in Hf; lia).
      cbn [map]. rewrite masked_value by (apply Hin; left; reflexivity). reflexivity.
  Qed.

  (* the exception loop restores every outlier *)
  Lemma dec_excs_ok xs : (forall v, In v xs -> In v xs0) ->
    forall pre fuel tl count,
    count = N.of_nat (length pre + length xs) -> count < 18446744073709551616 ->
    (length xs <= fuel)%nat ->
    pfor_dec_excs fuel count (N.of_nat (length (pfor_excs m (N.of_nat (length pre)) xs)))
      (pfor_put_excs (pfor_excs m (N.of_nat (length pre)) xs) ++ tl)
      (pre ++ map (pfor_masked m) xs)
    = POk (pre ++ xs).
  Proof.
    induction xs as [|v t IH]; intros Hin pre fuel tl count Hc Hc64 Hf.
    - destruct fuel; reflexivity.
    - assert (Ht : forall v0, In v0 t -> In v0 xs0) by (intros; apply Hin; right; assumption).
      assert (Hv : In v xs0) by (apply Hin; left; reflexivity).
      assert (Hpre1 : N.of_nat (length pre) + 1 = N.of_nat (length (pre ++ [v]))).
      { rewrite app_length. cbn [length]. lia. }
      assert (Hc' : count = N.of_nat (length (pre ++ [v]) + length t)).
      { rewrite app_length. cbn [length] in *. lia. }
      cbn [pfor_excs map]. unfold pfor_masked at 1. fold isx.
      destruct (isx v) eqn:E.
      + destruct fuel as [|f]; [cbn [length] in Hf; lia|].
        cbn [length pfor_put_excs pfor_dec_excs].
        destruct (N.of_nat (S _) =? 0) eqn:E0; [lia|].
        rewrite <- !app_assoc.
        rewrite rd_tagged_put by (cbn [length] in Hc; lia).
        rewrite rd_tagged_put by (apply (in64 xs0 OK); exact Hv).
        replace (N.of_nat (length pre) <? count) with true by (cbn [length] in Hc; lia).
        rewrite updN_app_here.
        replace (N.of_nat (S (length (pfor_excs m (N.of_nat (length pre) + 1) t))) - 1)
          with (N.of_nat (length (pfor_excs m (N.of_nat (length pre) + 1) t))) by lia.
        rewrite Hpre1.
        replace (pre ++ v :: map (pfor_masked m) t) with ((pre ++ [v]) ++ map (pfor_masked m) t)
          by (rewrite <- app_assoc; reflexivity).
        rewrite (IH Ht (pre ++ [v]) f tl count Hc' Hc64) by (cbn [length] in Hf; lia).
        rewrite <- app_assoc. reflexivity.
      + rewrite Hpre1.
        replace (pre ++ v :: map (pfor_masked m) t) with ((pre ++ [v]) ++ map (pfor_masked m) t)
          by (rewrite <- app_assoc; reflexivity).
        rewrite (IH Ht (pre ++ [v]) fuel tl count Hc' Hc64) by (cbn [length] in Hf; lia).
        rewrite <- app_assoc. reflexivity.
  Qed.

  (* the exception search of GetAt finds the outlier stored for an index *)
  Lemma search_ok xs : (forall v, In v xs -> In v xs0) ->
    forall (pre : list N) j fuel tl, (j < length xs)%nat -> isx (nth j xs 0) = true ->
    (length xs <= fuel)%nat -> N.of_nat (length pre + length xs) < 18446744073709551616 ->
    pfor_get_at_search fuel (N.of_nat (length (pfor_excs m (N.of_nat (length pre)) xs)))
      (N.of_nat (length pre + j))
      (pfor_put_excs (pfor_excs m (N.of_nat (length pre)) xs) ++ tl)
    = POk (nth j xs 0).
  Proof.
    induction xs as [|v t IH]; intros Hin pre j fuel tl Hj Hx Hf Hc.
    - cbn [length] in Hj. lia.
    - assert (Ht : forall v0, In v0 t -> In v0 xs0) by (intros; apply Hin; right; assumption).
      assert (Hv : In v xs0) by (apply Hin; left; reflexivity).
      assert (Hpre1 : N.of_nat (length pre) + 1 = N.of_nat (length (pre ++ [v]))).
      { rewrite app_length. cbn [length]. lia. }
      cbn [pfor_excs]. fold isx. destruct (isx v) eqn:E.
      + destruct fuel as [|f]; [cbn [length] in Hf; lia|].
        cbn [length pfor_put_excs pfor_get_at_search].
        destruct (N.of_nat (S _) =? 0) eqn:E0; [lia|].
        rewrite <- !app_assoc.
        rewrite rd_tagged_put by (cbn [length] in Hc; lia).
        rewrite rd_tagged_put by (apply (in64 xs0 OK); exact Hv).
        destruct j as [|j'].
        * replace (N.of_nat (length pre) =? N.of_nat (length pre + 0)) with true by lia. reflexivity.
        * replace (N.of_nat (length pre) =? N.of_nat (length pre + S j')) with false by lia.
          replace (N.of_nat (S (length (pfor_excs m (N.of_nat (length pre) + 1) t))) - 1)
            with (N.of_nat (length (pfor_excs m (N.of_nat (length pre) + 1) t))) by lia.
          rewrite Hpre1.
          replace (N.of_nat (length pre + S j')) with (N.of_nat (length (pre ++ [v]) + j'))
            by (rewrite app_length; cbn [length]; lia).
          cbn [nth] in *. apply IH; try assumption; cbn [length] in *; try lia;
            rewrite app_length; cbn [length]; lia.
      + destruct j as [|j']; [cbn [nth] in Hx; congruence|].
        rewrite Hpre1.
        replace (N.of_nat (length pre + S j')) with (N.of_nat (length (pre ++ [v]) + j'))
          by (rewrite app_length; cbn [length]; lia).
        cbn [nth] in *. apply IH; try assumption; cbn [length] in *; try lia;
          rewrite app_length; cbn [length]; lia.
  Qed.

  Lemma excs_length_le i xs : (length (pfor_excs m i xs) <= length xs)%nat.
  Proof.
    revert i. induction xs as [|v t IH]; intro i; [cbn; lia|].
    cbn [pfor_excs]. destruct (pfor_is_exc _ _ _ v); cbn [length]; specialize (IH (i + 1)); lia.
  Qed.

  Lemma marker_of_width : pfor_marker (pm_width m) = pm_marker m.
  Proof.
    rewrite (mo_width _ _ _ MO), (mo_marker _ _ _ MO). apply pfor_marker_val. apply (mo_w _ _ _ MO).
  Qed.
End WithMeta.

(* ---------- the loops only use min / marker / width of the metadata ---------- *)

Lemma dec_values_ext m m' : pm_min m = pm_min m' -> pm_marker m = pm_marker m' ->
  pm_width m = pm_width m' ->
  forall fuel n z, pfor_dec_values fuel m n z = pfor_dec_values fuel m' n z.
Proof.
  intros E1 E2 E3. induction fuel as [|f IH]; intros n z; cbn [pfor_dec_values]; rewrite E3.
  - reflexivity.
  - rewrite E1, E2. destruct (n =? 0); [reflexivity|].
    destruct (pfor_get_ext z (pm_width m')); try reflexivity. rewrite IH. reflexivity.
Qed.

Definition pfor_hdr_len (m : pfor_meta) (xs : list N) : N :=
  tagged_len (pm_min m) + 1 + tagged_len (N.of_nat (length xs)).

Lemma layout_split m xs :
  pfor_layout m xs =
  (tagged_put64 (pm_min m) ++ [pm_width m] ++ tagged_put64 (N.of_nat (length xs)))
  ++ flat_map (pfor_slot m) xs
  ++ tagged_put64 (N.of_nat (length (pfor_excs m 0 xs))) ++ pfor_put_excs (pfor_excs m 0 xs).
Proof. unfold pfor_layout. rewrite <- !app_assoc. reflexivity. Qed.

Lemma hdr_length m xs :
  N.of_nat (length (tagged_put64 (pm_min m) ++ [pm_width m] ++ tagged_put64 (N.of_nat (length xs))))
  = pfor_hdr_len m xs.
Proof.
  unfold pfor_hdr_len. rewrite !app_length, !tagged_put_length_nat. cbn [length].
  pose proof (tagged_len_range (pm_min m)). pose proof (tagged_len_range (N.of_nat (length xs))). lia.
Qed.

Section Decode.
  Variable m : pfor_meta.
  Variable xs : list N.
  Variable w : nat.
  Hypothesis MO : meta_ok m xs w.
  Hypothesis OK : u64ok xs.
  Hypothesis LEN : N.of_nat (length xs) < 4294967296.

  Let ec := N.of_nat (length (pfor_excs m 0 xs)).

  Lemma ec_small : ec < 4294967296.
  Proof. subst ec. pose proof (excs_length_le m 0 xs). lia. Qed.

  Lemma ec_is_exc : ec = pm_exc m.
  Proof. subst ec. rewrite (mo_exc _ _ _ MO). symmetry. apply count_exc_length. Qed.

  Lemma min64 : pm_min m < 18446744073709551616.
  Proof. apply (in64 xs OK). apply (mo_min_in _ _ _ MO). Qed.

  Lemma width_pos : (1 <= w)%nat. Proof. apply (mo_w _ _ _ MO). Qed.

  (* varintPFORReadMeta on an encoding *)
  Lemma read_meta_layout tl m0 :
    pfor_read_meta (pfor_layout m xs ++ tl) m0
    = POk (pfor_hdr_len m xs,
           mk_pfor_meta (pm_min m) (pm_marker m) (pm_tv m0) (pm_width m)
                        (N.of_nat (length xs)) ec 95).
  Proof.
    unfold pfor_read_meta, pfor_layout. rewrite <- !app_assoc.
    rewrite rd_tagged_put by apply min64.
    cbn [app].
    rewrite rd_tagged_put by lia.
    unfold u32. rewrite (N.mod_small (N.of_nat (length xs))) by exact LEN.
    rewrite (dropN_app_length' (flat_map (pfor_slot m) xs)).
    2:{ rewrite (body_length m xs w MO). rewrite (mo_width _ _ _ MO). reflexivity. }
    fold ec. pose proof ec_small as Hec.
    rewrite rd_tagged_put by lia.
    rewrite (N.mod_small ec) by exact Hec.
    rewrite (marker_of_width m xs w MO). reflexivity.
  Qed.

  Lemma layout_fuel tl : (length xs <= length (pfor_layout m xs ++ tl))%nat.
  Proof.
    rewrite layout_split, !app_length.
    pose proof (body_length m xs w MO xs) as H. pose proof width_pos as Hw.
    assert (E : length (flat_map (pfor_slot m) xs) = (length xs * w)%nat).
    { apply Nat2N.inj. rewrite Nat2N.inj_mul. exact H. }
    rewrite E. destruct w as [|w']; [lia|]. rewrite Nat.mul_succ_r. lia.
  Qed.

  (* everything after the header, for any metadata that agrees with the
     encoder's on min / marker / width / count *)
  Lemma decode_after_header m1 tl fuel :
    pm_min m1 = pm_min m -> pm_marker m1 = pm_marker m -> pm_width m1 = pm_width m ->
    pm_count m1 = N.of_nat (length xs) -> (length xs <= fuel)%nat ->
    match pfor_dec_values fuel m1 (pm_count m1)
            (flat_map (pfor_slot m) xs ++ tagged_put64 ec ++ pfor_put_excs (pfor_excs m 0 xs) ++ tl) with
    | POk (vals, z2) =>
        match rd_tagged z2 with
        | POk (_, e, z3) =>
            match pfor_dec_excs fuel (pm_count m1) (u32 e) z3 vals with
            | POk vals' => POk (vals', u32 e)
            | POob => POob | PUB => PUB | PFuel => PFuel
            end
        | POob => POob | PUB => PUB | PFuel => PFuel
        end
    | POob => POob | PUB => PUB | PFuel => PFuel
    end = POk (xs, ec).
  Proof.
    intros E1 E2 E3 E4 Hf.
    rewrite (dec_values_ext m1 m E1 E2 E3), E4.
    rewrite (dec_values_ok m xs w MO OK xs (fun v H => H)) by exact Hf.
    pose proof ec_small as Hec.
    rewrite rd_tagged_put by lia.
    unfold u32. rewrite (N.mod_small ec) by exact Hec.
    pose proof (dec_excs_ok m xs w OK xs (fun v H => H) [] fuel tl (N.of_nat (length xs))) as D.
    cbn [length app Nat.add] in D. change (N.of_nat 0) with 0 in D. fold ec in D.
    rewrite D by (try reflexivity; lia). reflexivity.
  Qed.

  (* Decode, header parsed by the decoder (meta->width == 0 on entry) *)
  Theorem decode_layout_fresh tl m0 : pm_width m0 = 0 ->
    pfor_decode (pfor_layout m xs ++ tl) m0
    = POk (xs, mk_pfor_meta (pm_min m) (pm_marker m) (pm_tv m0) (pm_width m)
                            (N.of_nat (length xs)) ec 95).
  Proof.
    intro W0. unfold pfor_decode. cbv zeta. rewrite W0. cbn [N.eqb].
    rewrite read_meta_layout.
    set (m1 := mk_pfor_meta (pm_min m) (pm_marker m) (pm_tv m0) (pm_width m) (N.of_nat (length xs)) ec 95).
    pose proof (layout_fuel tl) as Hf.
    set (fuel := S (length (pfor_layout m xs ++ tl))) in *.
    rewrite layout_split at 1. rewrite <- app_assoc.
    rewrite dropN_app_length' by (symmetry; apply hdr_length).
    rewrite <- !app_assoc.
    pose proof (decode_after_header m1 tl fuel eq_refl eq_refl eq_refl eq_refl ltac:(subst fuel; lia)) as D.
    destruct (pfor_dec_values fuel m1 (pm_count m1) _) as [[vals z2]| | |]; try discriminate.
    destruct (rd_tagged z2) as [[[? e] z3]| | |]; try discriminate.
    destruct (pfor_dec_excs fuel (pm_count m1) (u32 e) z3 vals); try discriminate.
    injection D as -> ->. reflexivity.
  Qed.

  (* Decode with the encoder's metadata (meta->width != 0 on entry) *)
  Theorem decode_layout_meta tl m1 :
    pm_min m1 = pm_min m -> pm_marker m1 = pm_marker m -> pm_width m1 = pm_width m ->
    pm_count m1 = N.of_nat (length xs) ->
    pfor_decode (pfor_layout m xs ++ tl) m1
    = POk (xs, mk_pfor_meta (pm_min m1) (pm_marker m1) (pm_tv m1) (pm_width m1)
                            (pm_count m1) ec (pm_thr m1)).
  Proof.
    intros E1 E2 E3 E4. unfold pfor_decode. cbv zeta.
    destruct (pm_width m1 =? 0) eqn:W0.
    { rewrite E3, (mo_width _ _ _ MO) in W0. pose proof width_pos. lia. }
    pose proof (layout_fuel tl) as Hf.
    set (fuel := S (length (pfor_layout m xs ++ tl))) in *.
    rewrite layout_split at 1. rewrite <- app_assoc.
    rewrite dropN_app_length'.
    2:{ rewrite hdr_length. unfold pfor_hdr_len. rewrite E1, E4. reflexivity. }
    rewrite <- !app_assoc.
    pose proof (decode_after_header m1 tl fuel E1 E2 E3 E4 ltac:(subst fuel; lia)) as D.
    destruct (pfor_dec_values fuel m1 (pm_count m1) _) as [[vals z2]| | |]; try discriminate.
    destruct (rd_tagged z2) as [[[? e] z3]| | |]; try discriminate.
    destruct (pfor_dec_excs fuel (pm_count m1) (u32 e) z3 vals); try discriminate.
    injection D as -> ->. reflexivity.
  Qed.

  (* GetAt, for any metadata that agrees with the encoder's on
     min / marker / width / count (the encoder's own, or ReadMeta's) *)
  Theorem get_at_layout tl m1 i :
    pm_min m1 = pm_min m -> pm_marker m1 = pm_marker m -> pm_width m1 = pm_width m ->
    pm_count m1 = N.of_nat (length xs) -> (i < length xs)%nat ->
    pfor_get_at (pfor_layout m xs ++ tl) (N.of_nat i) m1 = POk (nth i xs 0).
  Proof.
    intros E1 E2 E3 E4 Hi. unfold pfor_get_at. cbv zeta. rewrite E1, E2, E3, E4.
    replace (N.of_nat (length xs) <=? N.of_nat i) with false by lia.
    fold (pfor_hdr_len m xs).
    destruct (nth_split xs 0 Hi) as (a & b & Hx & Ha).
    set (v := nth i xs 0) in *.
    assert (Hv : In v xs) by (subst v; apply nth_In; exact Hi).
    assert (B : flat_map (pfor_slot m) xs
                = flat_map (pfor_slot m) a ++ pfor_slot m v ++ flat_map (pfor_slot m) b).
    { rewrite Hx at 1. rewrite flat_map_app. reflexivity. }
    pose proof (layout_fuel tl) as Hf.
    set (fuel := S (length (pfor_layout m xs ++ tl))) in *.
    rewrite layout_split. rewrite <- !app_assoc.
    rewrite !dropN_add.
    rewrite (app_assoc (tagged_put64 (pm_min m))), (app_assoc (tagged_put64 (pm_min m) ++ [pm_width m])).
    rewrite <- (app_assoc (tagged_put64 (pm_min m))).
    rewrite (dropN_app_length' (tagged_put64 (pm_min m) ++ [pm_width m] ++ tagged_put64 (N.of_nat (length xs))))
      by (symmetry; apply hdr_length).
    rewrite B at 1. rewrite <- !app_assoc.
    rewrite (dropN_app_length' (flat_map (pfor_slot m) a)).
    2:{ rewrite (body_length m xs w MO a), Ha, (mo_width _ _ _ MO). reflexivity. }
    rewrite (slot_read m xs w MO OK v _ Hv).
    destruct (pfor_is_exc (pm_min m) (pm_tv m) (pm_marker m) v) eqn:E.
    - rewrite N.eqb_refl. cbn [negb].
      rewrite (dropN_app_length' (flat_map (pfor_slot m) xs)).
      2:{ rewrite (body_length m xs w MO xs), (mo_width _ _ _ MO). reflexivity. }
      fold ec. pose proof ec_small as Hec.
      rewrite rd_tagged_put by lia.
      pose proof (search_ok m xs OK xs (fun v H => H) [] i fuel tl Hi) as S.
      cbn [length Nat.add] in S. change (N.of_nat 0) with 0 in S. fold ec in S.
      apply S; [exact E | subst fuel; lia | lia].
    - destruct (regular_offset m xs w MO OK v Hv E) as (A1 & A2 & A3 & A4).
      destruct (v - pm_min m =? pm_marker m) eqn:E5; [lia|]. cbn [negb].
      f_equal. unfold add64. pose proof (in64 xs OK v Hv).
      replace (pm_min m + (v - pm_min m)) with v by lia. apply N.mod_small. assumption.
  Qed.
End Decode.
