(* BP128Lemmas.v — facts shared by the four BP128 codecs: bit widths, maxima,
   block headers, one packed block, the block sequence `blocks` that all four
   encoders emit, delta/prefix-sum inverses, the tagged prefix. *)
Require Import VV.Base VV.BaseProofs VV.Tagged VV.TaggedProofs VV.TaggedSpecProofs VV.BP128 VV.BP128Bits.
From Coq Require Import Lia ZifyBool ZifyN ZifyNat.
Local Open Scope N_scope.
Ltac Zify.zify_post_hook ::= Z.div_mod_to_equations.

(* ---------- bits_needed ---------- *)

Lemma bits_needed_lt v : v < 2 ^ bits_needed v.
Proof.
  unfold bits_needed. destruct (v =? 0) eqn:E; [change (2 ^ 0) with 1; lia|]. apply N.size_gt.
Qed.

Lemma bits_needed_le v k : v < 2 ^ k -> bits_needed v <= k.
Proof.
  intro H. unfold bits_needed. destruct (v =? 0) eqn:E; [lia|].
  rewrite N.size_log2 by lia.
  assert (N.log2 v < k) by (apply N.log2_lt_pow2; lia). lia.
Qed.

Lemma bits_needed_mono a b : a <= b -> bits_needed a <= bits_needed b.
Proof.
  intro H. apply bits_needed_le. pose proof (bits_needed_lt b). lia.
Qed.

Lemma bits_needed_0 v : bits_needed v = 0 -> v = 0.
Proof. intro H. pose proof (bits_needed_lt v) as L. rewrite H in L. change (2 ^ 0) with 1 in L. lia. Qed.

Lemma bits_needed_max a b : bits_needed (N.max a b) = N.max (bits_needed a) (bits_needed b).
Proof.
  destruct (N.le_ge_cases a b) as [H|H].
  - rewrite (N.max_r a b H). pose proof (bits_needed_mono a b H). lia.
  - rewrite (N.max_l a b H). pose proof (bits_needed_mono b a H). lia.
Qed.

(* ---------- max_val ---------- *)

Definition fold_max (m : N) (vs : list N) : N := fold_left (fun m v => if m <? v then v else m) vs m.

Lemma fold_max_cons m v t : fold_max m (v :: t) = fold_max (N.max m v) t.
Proof. unfold fold_max. cbn [fold_left]. f_equal. destruct (m <? v) eqn:E; lia. Qed.

Lemma fold_max_max m vs : fold_max m vs = N.max m (fold_max 0 vs).
Proof.
  revert m. induction vs as [|v t IH]; intro m.
  - unfold fold_max. cbn [fold_left]. lia.
  - rewrite !fold_max_cons. rewrite (IH (N.max m v)), (IH (N.max 0 v)). lia.
Qed.

Lemma max_val_nil : max_val [] = 0. Proof. reflexivity. Qed.
Lemma max_val_cons v t : max_val (v :: t) = N.max v (max_val t).
Proof. change (max_val (v :: t)) with (fold_max 0 (v :: t)). rewrite fold_max_cons, fold_max_max. change (fold_max 0 t) with (max_val t). lia. Qed.

Lemma max_val_app a b : max_val (a ++ b) = N.max (max_val a) (max_val b).
Proof.
  induction a as [|v a IH]; cbn [app].
  - rewrite max_val_nil. lia.
  - rewrite !max_val_cons, IH. lia.
Qed.

Lemma max_val_ge vs : Forall (fun v => v <= max_val vs) vs.
Proof.
  induction vs as [|v t IH]; constructor.
  - rewrite max_val_cons. lia.
  - rewrite max_val_cons. eapply Forall_impl; [|exact IH]. cbv beta. intros. lia.
Qed.

Lemma max_val_lt B vs : 0 < B -> Forall (fun v => v < B) vs -> max_val vs < B.
Proof.
  intros HB H. induction H as [|v t Hv Ht IH]; [rewrite max_val_nil; exact HB|].
  rewrite max_val_cons. lia.
Qed.

Lemma max_bit_width_eq vs : max_bit_width vs = bits_needed (max_val vs).
Proof. destruct vs; reflexivity. Qed.

(* every value fits the block's width *)
Lemma fits_width vs : Forall (fun v => v < 2 ^ bits_needed (max_val vs)) vs.
Proof.
  eapply Forall_impl; [|apply max_val_ge]. cbv beta. intros v Hv.
  pose proof (bits_needed_lt (max_val vs)). lia.
Qed.

Lemma width_le W vs : Forall (fun v => v < 2 ^ W) vs -> bits_needed (max_val vs) <= W.
Proof.
  intro H. apply bits_needed_le. apply max_val_lt; [|exact H].
  apply N.neq_0_lt_0. apply N.pow_nonzero. lia.
Qed.

Lemma width0_zeros vs : bits_needed (max_val vs) = 0 -> vs = repeat 0 (length vs).
Proof.
  intro H. apply bits_needed_0 in H. pose proof (max_val_ge vs) as G. rewrite H in G. clear H.
  induction G as [|v t Hv Ht IH]; [reflexivity|]. cbn [length repeat]. f_equal; [lia|]. exact IH.
Qed.

(* ---------- header bytes ---------- *)

Lemma hdr_facts bw : bw < 128 ->
  (N.land (N.lor 128 bw) 128 =? 0) = false /\ N.land (N.lor 128 bw) 127 = bw /\
  (N.land bw 128 =? 0) = true /\ N.lor 128 bw < 256.
Proof.
  intro H.
  assert (I : In bw (map N.of_nat (seq 0 128))).
  { apply in_map_iff. exists (N.to_nat bw). split; [lia|]. apply in_seq. lia. }
  assert (A : forallb (fun b => negb (N.land (N.lor 128 b) 128 =? 0) && (N.land (N.lor 128 b) 127 =? b)
                                && (N.land b 128 =? 0) && (N.lor 128 b <? 256))
                      (map N.of_nat (seq 0 128)) = true) by (vm_compute; reflexivity).
  rewrite forallb_forall in A. specialize (A bw I). lia.
Qed.

Lemma read_header_block bs bw rest : bw < 128 -> bs <= 128 ->
  read_header (block_header bs bw ++ rest) = (bs <? 128, bw, bs, rest).
Proof.
  intros Hw Hb. destruct (hdr_facts bw Hw) as (A & B & C & D).
  unfold read_header, block_header. destruct (bs <? 128) eqn:E.
  - cbn [app byte_at nth skipn]. unfold u8.
    rewrite (N.mod_small (N.lor 128 bw)) by lia. rewrite A, B. cbn [negb].
    rewrite N.mod_small by lia. reflexivity.
  - cbn [app byte_at nth skipn]. unfold u8. rewrite N.mod_small by lia. rewrite C. cbn [negb].
    repeat f_equal. lia.
Qed.

Lemma length_block_header bs bw : length (block_header bs bw) = if bs <? 128 then 2%nat else 1%nat.
Proof. unfold block_header. destruct (bs <? 128); reflexivity. Qed.

Lemma bytes_ok_block_header bs bw : bytes_ok (block_header bs bw).
Proof. unfold block_header. destruct (bs <? 128); repeat constructor; apply u8_lt. Qed.

Lemma firstn_repeat_le {A} (x : A) n k : (n <= k)%nat -> firstn n (repeat x k) = repeat x n.
Proof.
  revert k. induction n as [|n IH]; intros k H; [reflexivity|].
  destruct k as [|k]; [lia|]. cbn [repeat firstn]. rewrite IH by lia. reflexivity.
Qed.

(* ---------- one block ---------- *)

(* header ++ payload of the block holding the values vs (1 <= |vs| <= 128) *)
Definition blk_payload (vs : list N) : list N :=
  let bw := bits_needed (max_val vs) in if 0 <? bw then pack bw vs else [].
Definition blk (vs : list N) : list N :=
  block_header (N.of_nat (length vs)) (bits_needed (max_val vs)) ++ blk_payload vs.

Lemma length_blk_payload vs :
  N.of_nat (length (blk_payload vs)) = nbytes (N.of_nat (length vs)) (bits_needed (max_val vs)).
Proof.
  unfold blk_payload. cbv zeta. destruct (0 <? bits_needed (max_val vs)) eqn:E.
  - rewrite length_pack. lia.
  - assert (bits_needed (max_val vs) = 0) as -> by lia. unfold nbytes. cbn [length]. lia.
Qed.

(* what either kind of reader gets from the payload: m <= |vs| values *)
Lemma payload_decode vs m rest : m <= N.of_nat (length vs) ->
  (if bits_needed (max_val vs) =? 0 then repeat 0 (N.to_nat m)
   else unpack_at (bits_needed (max_val vs)) m (blk_payload vs ++ rest)) = firstn (N.to_nat m) vs.
Proof.
  intro Hm. destruct (bits_needed (max_val vs) =? 0) eqn:E.
  - assert (Z : bits_needed (max_val vs) = 0) by lia.
    rewrite (width0_zeros vs Z) at 1. rewrite firstn_repeat_le by lia. reflexivity.
  - unfold blk_payload. cbv zeta. destruct (0 <? bits_needed (max_val vs)) eqn:F; [|lia].
    apply unpack_at_pack; [exact Hm|apply fits_width].
Qed.

Lemma payload_skip vs rest :
  skipn (N.to_nat (nbytes (N.of_nat (length vs)) (bits_needed (max_val vs)))) (blk_payload vs ++ rest) = rest.
Proof.
  rewrite <- length_blk_payload, Nat2N.id.
  rewrite skipn_app, Nat.sub_diag, skipn_O, skipn_all. reflexivity.
Qed.

Lemma payload_width0 vs : bits_needed (max_val vs) = 0 -> blk_payload vs = [].
Proof. intro H. unfold blk_payload. rewrite H. reflexivity. Qed.

Lemma bytes_ok_blk vs : bytes_ok (blk vs).
Proof.
  unfold blk, blk_payload. apply bytes_ok_app; [apply bytes_ok_block_header|].
  cbv zeta. destruct (0 <? _); [apply bytes_ok_pack|constructor].
Qed.

(* size of a block whose values have at most 64 bits *)
Lemma length_blk_le vs : N.of_nat (length vs) <= 128 -> Forall (fun v => v < 2 ^ 64) vs ->
  N.of_nat (length (blk vs)) <=
    (if N.of_nat (length vs) <? 128 then 2 else 1) + 8 * N.of_nat (length vs).
Proof.
  intros Hl Hv. unfold blk. rewrite app_length, Nat2N.inj_add, length_blk_payload, length_block_header.
  pose proof (width_le 64 vs Hv) as W. unfold nbytes.
  set (b := N.of_nat (length vs)) in *. set (w := bits_needed (max_val vs)) in *.
  assert (b * w <= b * 64) by (apply N.mul_le_mono_l; exact W).
  set (p := b * w) in *. clearbody p. destruct (b <? 128); cbn [length]; lia.
Qed.

(* ---------- the block sequence ---------- *)

Fixpoint blocks (fuel : nat) (vs : list N) : list N :=
  match fuel with
  | O => []
  | S f =>
    match vs with
    | [] => []
    | _ => blk (firstn 128 vs) ++ blocks f (skipn 128 vs)
    end
  end.

Lemma blocks_nil f : blocks f [] = [].
Proof. destruct f; reflexivity. Qed.

Lemma blocks_short f vs : vs <> [] -> (length vs <= 128)%nat -> blocks (S f) vs = blk vs.
Proof.
  intros Hn Hl. cbn [blocks]. destruct vs as [|v t]; [congruence|].
  rewrite firstn_all2 by exact Hl. rewrite skipn_all2 by exact Hl. rewrite blocks_nil, app_nil_r. reflexivity.
Qed.

Lemma blocks_long f vs : (128 < length vs)%nat ->
  blocks (S f) vs = blk (firstn 128 vs) ++ blocks f (skipn 128 vs).
Proof. intro H. cbn [blocks]. destruct vs as [|v t]; [cbn [length] in H; lia|]. reflexivity. Qed.

Lemma bytes_ok_blocks f vs : bytes_ok (blocks f vs).
Proof.
  revert vs. induction f as [|f IH]; intro vs; [constructor|].
  cbn [blocks]. destruct vs; [constructor|]. apply bytes_ok_app; [apply bytes_ok_blk|apply IH].
Qed.

(* worst-case size of the block sequence (64-bit values) *)
Definition blocks_bound (n : N) : N := (n / 128) * 1025 + (if 0 <? n mod 128 then 2 + (n mod 128) * 8 else 0).

Lemma length_blocks_le f vs : Forall (fun v => v < 2 ^ 64) vs ->
  N.of_nat (length (blocks f vs)) <= blocks_bound (N.of_nat (length vs)).
Proof.
  revert vs. induction f as [|f IH]; intros vs Hv; [cbn [blocks length]; lia|].
  destruct vs as [|v0 t0] eqn:Evs; [cbn [blocks length]; lia|]. rewrite <- Evs in *.
  assert (Hne : vs <> []) by (rewrite Evs; discriminate). clear Evs v0 t0.
  destruct (Nat.le_gt_cases (length vs) 128) as [Hs|Hl].
  - rewrite blocks_short by assumption.
    pose proof (length_blk_le vs ltac:(lia) Hv) as B. unfold blocks_bound.
    assert (0 < length vs)%nat by (destruct vs; [congruence|cbn [length]; lia]).
    set (n := N.of_nat (length vs)) in *. assert (n <= 128) by lia. assert (0 < n) by lia. clearbody n.
    destruct (n <? 128) eqn:E.
    + replace (n / 128) with 0 by lia. replace (n mod 128) with n by lia.
      destruct (0 <? n) eqn:F; lia.
    + replace n with 128 in * by lia. change (128 / 128) with 1. change (128 mod 128) with 0.
      change (0 <? 0) with false. cbv iota. lia.
  - rewrite blocks_long by assumption. rewrite app_length, Nat2N.inj_add.
    pose proof (length_blk_le (firstn 128 vs)) as B.
    rewrite firstn_length_le in B by lia.
    specialize (B ltac:(lia) (Forall_firstn' _ _ _ Hv)). change (N.of_nat 128 <? 128) with false in B. cbv iota in B.
    specialize (IH (skipn 128 vs) (Forall_skipn' _ _ _ Hv)). rewrite skipn_length in IH.
    unfold blocks_bound in *.
    replace (N.of_nat (length vs - 128)) with (N.of_nat (length vs) - 128) in IH by lia.
    set (n := N.of_nat (length vs)) in *. assert (128 < n) by lia. clearbody n.
    replace ((n - 128) / 128) with (n / 128 - 1) in IH by lia.
    replace ((n - 128) mod 128) with (n mod 128) in IH by lia.
    change (N.of_nat 128) with 128 in B.
    assert (1 <= n / 128) by lia.
    destruct (0 <? n mod 128); lia.
Qed.

(* number of blocks: fuel that covers the whole list *)
Lemma blocks_fuel_ok vs : (length vs <= 128 * blocks_fuel vs)%nat.
Proof. unfold blocks_fuel. lia. Qed.

(* ---------- encoders' block loops are `blocks` ---------- *)

Lemma enc64_blocks_eq f vs : enc64_blocks f vs = blocks f vs.
Proof.
  revert vs. induction f as [|f IH]; intro vs; [reflexivity|].
  cbn [enc64_blocks blocks]. destruct vs as [|v t]; [reflexivity|].
  rewrite IH. unfold blk, blk_payload. rewrite max_bit_width_eq. cbv zeta. rewrite <- app_assoc. reflexivity.
Qed.

(* ---------- deltas / prefix sums ---------- *)

Lemma length_deltas32 p vs : length (deltas32 p vs) = length vs.
Proof. revert p. induction vs as [|v t IH]; intro p; cbn [deltas32 length]; [reflexivity|]. rewrite IH. reflexivity. Qed.
Lemma length_deltas64 p vs : length (deltas64 p vs) = length vs.
Proof. revert p. induction vs as [|v t IH]; intro p; cbn [deltas64 length]; [reflexivity|]. rewrite IH. reflexivity. Qed.
Lemma length_psum32 p ds : length (psum32 p ds) = length ds.
Proof. revert p. induction ds as [|v t IH]; intro p; cbn [psum32 length]; [reflexivity|]. rewrite IH. reflexivity. Qed.
Lemma length_psum64 p ds : length (psum64 p ds) = length ds.
Proof. revert p. induction ds as [|v t IH]; intro p; cbn [psum64 length]; [reflexivity|]. rewrite IH. reflexivity. Qed.

Lemma psum32_deltas32 p vs : p < 4294967296 -> Forall (fun v => v < 4294967296) vs ->
  psum32 p (deltas32 p vs) = vs.
Proof.
  intros Hp H. revert p Hp. induction H as [|v t Hv Ht IH]; intros p Hp; [reflexivity|].
  cbn [deltas32 psum32]. cbv zeta.
  assert (E : u32 (p + sub32 v p) = v) by (unfold u32, sub32; lia).
  rewrite E. f_equal. apply IH. exact Hv.
Qed.

Lemma psum64_deltas64 p vs : p < 18446744073709551616 -> Forall (fun v => v < 18446744073709551616) vs ->
  psum64 p (deltas64 p vs) = vs.
Proof.
  intros Hp H. revert p Hp. induction H as [|v t Hv Ht IH]; intros p Hp; [reflexivity|].
  cbn [deltas64 psum64]. cbv zeta.
  assert (E : add64 p (sub64 v p) = v) by (unfold add64, sub64; lia).
  rewrite E. f_equal. apply IH. exact Hv.
Qed.

Lemma deltas32_lt p vs : Forall (fun d => d < 2 ^ 32) (deltas32 p vs).
Proof.
  revert p. induction vs as [|v t IH]; intro p; cbn [deltas32]; constructor; [|apply IH].
  unfold sub32. change (2 ^ 32) with 4294967296. lia.
Qed.
Lemma deltas64_lt p vs : Forall (fun d => d < 2 ^ 64) (deltas64 p vs).
Proof.
  revert p. induction vs as [|v t IH]; intro p; cbn [deltas64]; constructor; [|apply IH].
  unfold sub64. change (2 ^ 64) with 18446744073709551616. lia.
Qed.

Lemma last_cons' {A} (x : A) l d : last (x :: l) d = last l x.
Proof. revert x d. induction l as [|y l IH]; intros x d; [reflexivity|]. change (last (x :: y :: l) d) with (last (y :: l) d). rewrite (IH y d), (IH y x). reflexivity. Qed.

Lemma psum32_app p a b : psum32 p (a ++ b) = psum32 p a ++ psum32 (last (psum32 p a) p) b.
Proof.
  revert p. induction a as [|d a IH]; intro p; [reflexivity|].
  cbn [app psum32]. cbv zeta. rewrite IH. rewrite last_cons'. reflexivity.
Qed.
Lemma psum64_app p a b : psum64 p (a ++ b) = psum64 p a ++ psum64 (last (psum64 p a) p) b.
Proof.
  revert p. induction a as [|d a IH]; intro p; [reflexivity|].
  cbn [app psum64]. cbv zeta. rewrite IH. rewrite last_cons'. reflexivity.
Qed.

Lemma deltas32_app p a b : deltas32 p (a ++ b) = deltas32 p a ++ deltas32 (last a p) b.
Proof.
  revert p. induction a as [|v a IH]; intro p; [reflexivity|].
  cbn [app deltas32]. rewrite IH, last_cons'. reflexivity.
Qed.
Lemma deltas64_app p a b : deltas64 p (a ++ b) = deltas64 p a ++ deltas64 (last a p) b.
Proof.
  revert p. induction a as [|v a IH]; intro p; [reflexivity|].
  cbn [app deltas64]. rewrite IH, last_cons'. reflexivity.
Qed.

Lemma firstn_deltas32 n p vs : firstn n (deltas32 p vs) = deltas32 p (firstn n vs).
Proof. revert p vs. induction n as [|n IH]; intros p [|v t]; cbn [firstn deltas32]; try reflexivity. rewrite IH. reflexivity. Qed.
Lemma firstn_deltas64 n p vs : firstn n (deltas64 p vs) = deltas64 p (firstn n vs).
Proof. revert p vs. induction n as [|n IH]; intros p [|v t]; cbn [firstn deltas64]; try reflexivity. rewrite IH. reflexivity. Qed.
Lemma skipn_deltas32 n p vs : skipn n (deltas32 p vs) = deltas32 (last (firstn n vs) p) (skipn n vs).
Proof.
  revert p vs. induction n as [|n IH]; intros p [|v t]; try reflexivity.
  cbn [skipn deltas32 firstn]. rewrite IH, last_cons'. reflexivity.
Qed.
Lemma skipn_deltas64 n p vs : skipn n (deltas64 p vs) = deltas64 (last (firstn n vs) p) (skipn n vs).
Proof.
  revert p vs. induction n as [|n IH]; intros p [|v t]; try reflexivity.
  cbn [skipn deltas64 firstn]. rewrite IH, last_cons'. reflexivity.
Qed.

Lemma firstn_psum32 n p ds : firstn n (psum32 p ds) = psum32 p (firstn n ds).
Proof. revert p ds. induction n as [|n IH]; intros p [|v t]; cbn [firstn psum32]; try reflexivity. cbv zeta. rewrite IH. reflexivity. Qed.
Lemma firstn_psum64 n p ds : firstn n (psum64 p ds) = psum64 p (firstn n ds).
Proof. revert p ds. induction n as [|n IH]; intros p [|v t]; cbn [firstn psum64]; try reflexivity. cbv zeta. rewrite IH. reflexivity. Qed.

(* ---------- the tagged prefix ---------- *)

Lemma tagged_get64_put x tl : x < 18446744073709551616 ->
  tagged_get64 (tagged_put64 x ++ tl) = (tagged_len x, x).
Proof.
  intro H. unfold tagged_get64. apply tagged_roundtrip; [exact H|].
  pose proof (tagged_len_range x). lia.
Qed.

Lemma skipn_tagged x tl : skipn (N.to_nat (tagged_len x)) (tagged_put64 x ++ tl) = tl.
Proof.
  rewrite <- tagged_put_length, Nat2N.id.
  rewrite skipn_app, Nat.sub_diag, skipn_O, skipn_all. reflexivity.
Qed.

Lemma length_tagged_le x : N.of_nat (length (tagged_put64 x)) <= 9.
Proof. rewrite tagged_put_length. pose proof (tagged_len_range x). lia. Qed.

(* ---------- list helpers ---------- *)

Lemma last_firstn_nth {A} (l : list A) n d : (0 < n <= length l)%nat -> last (firstn n l) d = nth (n - 1) l d.
Proof.
  revert l. induction n as [|n IH]; intros l H; [lia|].
  destruct l as [|x t]; [cbn [length] in H; lia|].
  destruct n as [|n].
  - cbn [firstn last Nat.sub nth]. reflexivity.
  - cbn [length] in H. specialize (IH t ltac:(lia)).
    change (firstn (S (S n)) (x :: t)) with (x :: firstn (S n) t).
    replace (S (S n) - 1)%nat with (S (S n - 1)) by lia. cbn [nth].
    rewrite <- IH. destruct t as [|y t']; [cbn [length] in H; lia|]. reflexivity.
Qed.

Lemma firstn_split {A} n m (l : list A) : (n <= m)%nat ->
  firstn m l = firstn n l ++ firstn (m - n) (skipn n l).
Proof.
  revert m l. induction n as [|n IH]; intros m l H.
  - rewrite Nat.sub_0_r. reflexivity.
  - destruct m as [|m]; [lia|]. destruct l as [|x t]; [cbn [skipn]; rewrite !firstn_nil; reflexivity|].
    cbn [firstn skipn app Nat.sub]. rewrite (IH m t) by lia. reflexivity.
Qed.

Lemma nlen_acc_eq l a : nlen_acc l a = a + N.of_nat (length l).
Proof. revert a. induction l as [|x t IH]; intro a; cbn [nlen_acc length]; [lia|]. rewrite IH. lia. Qed.
Lemma nlen_eq l : nlen l = N.of_nat (length l).
Proof. unfold nlen. rewrite nlen_acc_eq. lia. Qed.
Lemma len_acc_eq l a : len_acc l a = (length l + a)%nat.
Proof. revert a. induction l as [|x t IH]; intro a; cbn [len_acc length]; [lia|]. rewrite IH. lia. Qed.
