(* Properties_C02_dfg.v — property C02 (integer-array codecs are lossless,
   including random access), contribution of delta, frame-of-reference and
   group.  Nothing but statements closed by `exact`, each followed by
   Print Assumptions.  Encoders return the bytes written; decoders get the
   encoding followed by an ARBITRARY suffix [post], so every equation below
   also says that the decoder's result does not depend on anything after
   the bytes the encoder reported writing. *)
Require Import VV.Base VV.Tagged VV.Delta VV.FOR VV.Group.
Require Import VV.DeltaProofs VV.FORProofs VV.GroupProofs.
Local Open Scope N_scope.

(* ---- zigzag (varintDeltaZigZag / ZigZagDecode): the C bit trick is the
   documented mapping 0,-1,1,-2,... -> 0,1,2,3,... on all of int64, and a
   bijection with uint64 *)
Theorem C02_zigzag_is_spec : forall n, in_s64 n = true ->
  delta_zigzag n = Z.to_N (if (0 <=? n)%Z then 2 * n else - 2 * n - 1)%Z.
Proof. exact delta_zigzag_is_spec. Qed.
Print Assumptions C02_zigzag_is_spec.

Theorem C02_zigzag_roundtrip : forall n, in_s64 n = true -> delta_unzigzag (delta_zigzag n) = n.
Proof. exact delta_unzigzag_zigzag. Qed.
Print Assumptions C02_zigzag_roundtrip.

Theorem C02_unzigzag_roundtrip : forall z, z < 18446744073709551616 ->
  in_s64 (delta_unzigzag z) = true /\ delta_zigzag (delta_unzigzag z) = z.
Proof. intros z H. split; [exact (delta_unzigzag_range z H) | exact (delta_zigzag_unzigzag z H)]. Qed.
Print Assumptions C02_unzigzag_roundtrip.

(* ---- single delta: varintDeltaGet after varintDeltaPut *)
Theorem C02_delta_get_put : forall d tl, in_s64 d = true ->
  delta_get (delta_put d ++ tl) = Some (N.of_nat (length (delta_put d)), d).
Proof. exact delta_get_put. Qed.
Print Assumptions C02_delta_get_put.

(* ---- varintDeltaEncode / varintDeltaDecode: every int64 array whose
   consecutive differences are representable *)
Theorem C02_delta_roundtrip : forall xs post,
  Forall (fun x => in_s64 x = true) xs ->
  (forall i, (S i < length xs)%nat -> in_s64 (nth (S i) xs 0 - nth i xs 0)%Z = true) ->
  exists enc, delta_encode xs = Some enc /\
    delta_decode (enc ++ post) (length xs) = Some (N.of_nat (length enc), xs).
Proof. exact delta_roundtrip. Qed.
Print Assumptions C02_delta_roundtrip.

(* ---- varintDeltaEncodeUnsigned / DecodeUnsigned: every uint64 array *)
Theorem C02_delta_u_roundtrip : forall xs post,
  Forall (fun x => x < 18446744073709551616) xs ->
  delta_decode_u (delta_encode_u xs ++ post) (length xs)
  = Some (N.of_nat (length (delta_encode_u xs)), xs).
Proof. exact delta_u_roundtrip. Qed.
Print Assumptions C02_delta_u_roundtrip.

(* ---- frame of reference.  Domain: non-empty uint64 arrays; the caller's
   meta is NULL, or has a stale count, or is the analysis of this array
   (a meta whose count matches is trusted by the C code).  Plain and batch
   decoders with any capacity >= count. *)
Theorem C02_for_roundtrip : forall xs meta post cap,
  xs <> [] -> Forall (fun x => x < 18446744073709551616) xs ->
  N.of_nat (length xs) < 1152921504606846976 ->
  (meta = None \/ exists m0, meta = Some m0 /\
     (fm_count m0 <> N.of_nat (length xs) \/ for_analyze xs = Some m0)) ->
  N.of_nat (length xs) <= cap ->
  exists enc meta', for_encode xs meta = Some (enc, meta') /\
    for_decode (enc ++ post) cap = Some (N.of_nat (length xs), xs) /\
    for_batch_decode (enc ++ post) cap = Some (N.of_nat (length xs), xs).
Proof. exact for_roundtrip. Qed.
Print Assumptions C02_for_roundtrip.

(* the batch encoder is the same function on this (scalar) build *)
Theorem C02_for_batch_encode : forall xs meta, for_batch_encode xs meta = for_encode xs meta.
Proof. exact for_batch_encode_same. Qed.
Print Assumptions C02_for_batch_encode.

(* random access returns the element the full decoder returns *)
Theorem C02_for_get_at : forall xs meta post i,
  xs <> [] -> Forall (fun x => x < 18446744073709551616) xs ->
  N.of_nat (length xs) < 1152921504606846976 ->
  (meta = None \/ exists m0, meta = Some m0 /\
     (fm_count m0 <> N.of_nat (length xs) \/ for_analyze xs = Some m0)) ->
  (i < length xs)%nat ->
  exists enc meta', for_encode xs meta = Some (enc, meta') /\
    for_get_at (enc ++ post) (N.of_nat i) = Some (nth i xs 0).
Proof. exact for_get_at_ok. Qed.
Print Assumptions C02_for_get_at.

(* the block reader returns the slice [start, start+block) clipped to the array *)
Theorem C02_for_decode_block : forall xs meta post start block,
  xs <> [] -> Forall (fun x => x < 18446744073709551616) xs ->
  N.of_nat (length xs) < 1152921504606846976 ->
  (meta = None \/ exists m0, meta = Some m0 /\
     (fm_count m0 <> N.of_nat (length xs) \/ for_analyze xs = Some m0)) ->
  start + block < 18446744073709551616 ->
  exists enc meta', for_encode xs meta = Some (enc, meta') /\
    for_decode_block (enc ++ post) start block
    = Some (N.of_nat (length (firstn (N.to_nat block) (skipn (N.to_nat start) xs))),
            firstn (N.to_nat block) (skipn (N.to_nat start) xs)).
Proof. exact for_decode_block_ok. Qed.
Print Assumptions C02_for_decode_block.

(* ---- group: 1..64 fields of uint64 *)
Theorem C02_group_roundtrip : forall xs post cap,
  (1 <= length xs <= 64)%nat -> Forall (fun x => x < 18446744073709551616) xs ->
  N.of_nat (length xs) <= cap ->
  exists enc, group_encode xs (N.of_nat (length xs)) = Some enc /\
    group_decode (enc ++ post) cap = Some (N.of_nat (length enc), Some (N.of_nat (length xs)), xs).
Proof. exact group_roundtrip. Qed.
Print Assumptions C02_group_roundtrip.

Theorem C02_group_get_field : forall xs post i,
  (1 <= length xs <= 64)%nat -> Forall (fun x => x < 18446744073709551616) xs -> (i < length xs)%nat ->
  exists enc, group_encode xs (N.of_nat (length xs)) = Some enc /\
    group_get_field (enc ++ post) (N.of_nat i)
    = Some (1 + group_bitmap_size (N.of_nat (length xs)) + group_sum (map group_norm_width (firstn (S i) xs)),
            Some (nth i xs 0)).
Proof. exact group_get_field_ok. Qed.
Print Assumptions C02_group_get_field.

(* non-vacuity *)
Example C02_dfg_examples :
  (exists e, delta_encode [0; -1; 9223372036854775806; -1]%Z = Some e /\
     delta_decode e 4 = Some (N.of_nat (length e), [0; -1; 9223372036854775806; -1]%Z)) /\
  delta_decode_u (delta_encode_u [9223372036854775808; 0; 18446744073709551615]) 3
    = Some (20, [9223372036854775808; 0; 18446744073709551615]) /\
  (exists e m, for_encode [1000; 1255; 1256] None = Some (e, m) /\
     for_decode e 3 = Some (3, [1000; 1255; 1256]) /\ for_get_at e 2 = Some 1256) /\
  (exists e, group_encode [25; 50000; 18446744073709551615] 3 = Some e /\
     group_decode e 3 = Some (N.of_nat (length e), Some 3, [25; 50000; 18446744073709551615])).
Proof.
  split; [eexists; split; [vm_compute; reflexivity|vm_compute; reflexivity]|].
  split; [vm_compute; reflexivity|].
  split; [do 2 eexists; split; [vm_compute; reflexivity|split; vm_compute; reflexivity]|].
  eexists; split; [vm_compute; reflexivity|vm_compute; reflexivity].
Qed.
