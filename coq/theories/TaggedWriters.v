(* TaggedWriters.v — every writer of the tagged family produces the same key
   for one value: varintTaggedPutVarint32, varintTaggedPut64FixedWidth and the
   Quick macro at the value's natural width, and the in-place add helpers all
   leave exactly tagged_put64 of the value, so keys written by different code
   paths sort together (C05) *)
Require Import VV.Base VV.BaseProofs VV.Tagged VV.TaggedProofs VV.TaggedFixed VV.TaggedSpecProofs.
From Coq Require Import Lia ZifyBool ZifyN ZifyNat List.
Import ListNotations.
Local Open Scope N_scope.
Ltac Zify.zify_post_hook ::= Z.div_mod_to_equations.

Lemma sub64_small x c : c <= x -> x < 18446744073709551616 -> sub64 x c = x - c.
Proof. intros H Hx. unfold sub64. lia. Qed.

Lemma tagged_put32_key v : tagged_put32 v = tagged_put64 v.
Proof. reflexivity. Qed.

Lemma tagged_fixed_natural_key x : x < 18446744073709551616 ->
  tagged_put64_fixed x (tagged_len x) = Some (tagged_put64 x).
Proof.
  intro Hx. unfold tagged_len, tagged_put64.
  destruct (x <=? 240) eqn:E1; [reflexivity|].
  destruct (x <=? 2287) eqn:E2.
  { unfold tagged_put64_fixed. rewrite sub64_small by lia. reflexivity. }
  destruct (x <=? 67823) eqn:E3.
  { unfold tagged_put64_fixed. rewrite sub64_small by lia. reflexivity. }
  cbv zeta.
  destruct (u32 (shr x 32) =? 0) eqn:E4.
  { destruct (u32 x <=? 16777215) eqn:E5; reflexivity. }
  destruct (u32 (shr x 32) <=? 255) eqn:E6; [reflexivity|].
  destruct (u32 (shr x 32) <=? 65535) eqn:E7; [reflexivity|].
  destruct (u32 (shr x 32) <=? 16777215) eqn:E8; reflexivity.
Qed.

Lemma tagged_fixed_quick_natural_key x : x < 18446744073709551616 ->
  tagged_put64_fixed_quick x (tagged_len x) = Some (tagged_put64 x).
Proof. intro Hx. rewrite tagged_put64_fixed_quick_eq. apply tagged_fixed_natural_key; exact Hx. Qed.

(* the add helpers, whenever they store, leave the canonical key of the sum at
   the front of the slot *)
Lemma tagged_add_key p add force :
  in_s64 (to_s64 (snd (tagged_get64 p)) + add) = true ->
  (force = true \/
   tagged_len (of_s64 (to_s64 (snd (tagged_get64 p)) + add)) <= fst (tagged_get64 p)) ->
  exists t, snd (tagged_add p add force)
            = tagged_put64 (of_s64 (to_s64 (snd (tagged_get64 p)) + add)) ++ t.
Proof.
  intros H C. unfold tagged_add. cbv zeta. rewrite H. cbn [negb].
  set (nv := of_s64 _) in *.
  assert (E : (fst (tagged_get64 p) <? tagged_len nv) && negb force = false).
  { destruct C as [->|C]; [apply andb_false_r|].
    destruct (fst (tagged_get64 p) <? tagged_len nv) eqn:E; [lia|reflexivity]. }
  rewrite E. cbn [snd]. apply store_0_prefix.
Qed.

(* a key written by any of them compares with a Put64 key as the numbers do *)
Theorem tagged_writers_order a b : a < 18446744073709551616 -> b < 18446744073709551616 ->
  (a < 4294967296 -> lex (tagged_put32 a) (tagged_put64 b) = (a ?= b)) /\
  (forall k, tagged_put64_fixed a (tagged_len a) = Some k -> lex k (tagged_put64 b) = (a ?= b)) /\
  (forall k, tagged_put64_fixed_quick a (tagged_len a) = Some k -> lex k (tagged_put64 b) = (a ?= b)).
Proof.
  intros Ha Hb. split; [|split].
  - intros _. rewrite tagged_put32_key. apply tagged_order; assumption.
  - intros k. rewrite tagged_fixed_natural_key by exact Ha. intros [= <-]. apply tagged_order; assumption.
  - intros k. rewrite tagged_fixed_quick_natural_key by exact Ha. intros [= <-]. apply tagged_order; assumption.
Qed.

Theorem tagged_add_key_order p add force b : b < 18446744073709551616 ->
  in_s64 (to_s64 (snd (tagged_get64 p)) + add) = true ->
  (force = true \/
   tagged_len (of_s64 (to_s64 (snd (tagged_get64 p)) + add)) <= fst (tagged_get64 p)) ->
  let nv := of_s64 (to_s64 (snd (tagged_get64 p)) + add) in
  let r := tagged_add p add force in
  firstn (N.to_nat (fst r)) (snd r) = tagged_put64 nv /\
  lex (firstn (N.to_nat (fst r)) (snd r)) (tagged_put64 b) = (nv ?= b).
Proof.
  intros Hb H C nv r.
  assert (Hnv : nv < 18446744073709551616) by (subst nv; unfold of_s64; lia).
  destruct (tagged_add_key p add force H C) as [t Ht]. fold nv in Ht.
  pose proof (tagged_add_stores p add force H C) as S. cbv zeta in S. fold nv in S.
  destruct S as (Sf & _ & _ & _).
  assert (K : firstn (N.to_nat (fst r)) (snd r) = tagged_put64 nv).
  { subst r. rewrite Sf, Ht. rewrite <- tagged_put_length_nat.
    rewrite firstn_app, Nat.sub_diag, firstn_all. cbn [firstn]. apply app_nil_r. }
  split; [exact K|]. rewrite K. apply tagged_order; assumption.
Qed.
