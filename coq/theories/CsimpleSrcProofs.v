(* CsimpleSrcProofs.v — the regenerated renderings of the functions of
   src/varintChainedSimple.c (coq/gen/Src_csimple.v, produced by gen/c2coq.py;
   loops rendered with c_while and explicit fuel) compute what the hand-written
   model of Chained.v computes, for every input and every sufficient fuel. *)
Require Import VV.Base VV.BaseProofs VV.Tagged VV.TaggedProofs VV.Chained VV.ChainedPutProofs VV.CSem VV.CSemProofs.
Require Import VVgen.Src_csimple.
From Coq Require Import Lia ZifyBool ZifyN ZifyNat.
Local Open Scope Z_scope.
Ltac Zify.zify_post_hook ::= Z.div_mod_to_equations.

(* the length classes of the MODEL drive every case analysis *)
Lemma csimple_classes v : (v < 18446744073709551616)%N ->
  ((v < 128 /\ csimple_length v = 1) \/ (128 <= v < 16384 /\ csimple_length v = 2) \/
   (16384 <= v < 2097152 /\ csimple_length v = 3) \/ (2097152 <= v < 268435456 /\ csimple_length v = 4) \/
   (268435456 <= v < 34359738368 /\ csimple_length v = 5) \/
   (34359738368 <= v < 4398046511104 /\ csimple_length v = 6) \/
   (4398046511104 <= v < 562949953421312 /\ csimple_length v = 7) \/
   (562949953421312 <= v < 72057594037927936 /\ csimple_length v = 8) \/
   (72057594037927936 <= v /\ csimple_length v = 9))%N.
Proof.
  intro H. rewrite csimple_length_eq, chained_len_table by exact H. kill_ifs; lia.
Qed.

Ltac split_cs x :=
  let H := fresh "H" in
  pose proof (csimple_classes (Z.to_N x)) as H;
  let T := type of H in
  match T with ?P -> _ => let P' := fresh in assert (P' : P) by lia; specialize (H P'); clear P' end;
  repeat match goal with H : _ \/ _ |- _ => destruct H as [H|H] end;
  match goal with
  | H : _ /\ csimple_length _ = _ |- _ => let R := fresh "R" in let L := fresh "L" in destruct H as [R L]
  end.

(* run a loop: evaluate what precedes it, then unroll one iteration at a time *)
Ltac c_loop := repeat c_step; repeat (rewrite c_while_S; unfold bind; repeat c_step); c_simp.

(* `while (v >>= 7) i++` takes at most 10 iterations *)
Lemma src_varintChainedSimpleLength_is_model : forall fuel v, (10 <= fuel)%nat -> 0 <= v < 18446744073709551616 ->
  src_varintChainedSimpleLength fuel v = COk (Z.of_N (csimple_length (Z.to_N v))).
Proof.
  intros fuel v Hf Hv. peel_fuel fuel 10%nat. split_cs v. all: rewrite L; clear L.
  all: unfold src_varintChainedSimpleLength; c_unfold; c_loop; f_equal; lia.
Qed.

(* a byte stored by the C = the model's byte: both sides to integer arithmetic
   (7-bit fields that do not overlap), or, where the operands of | overlap,
   the same | of provably equal operands *)
Ltac byte_eq :=
  apply N2Z.inj; rewrite Z2N.id by lia; n2z_push; rewrite ?Z2N.id by lia; closed_eval;
  first [ reflexivity
        | match goal with
          | |- Z.lor ?a ?b mod ?m = Z.lor ?a' ?b mod ?m => replace a with a' by lia; reflexivity
          end
        | land_to_mod; lor_to_add7; lia ].

Ltac finish_enc :=
  cbn [app]; rewrite <- upds_store by (cbn [length]; lia); cbn [upds];
  apply cok_pair_eq; [cbn [length]; lia|];
  repeat (apply upd_eq3; [|lia|byte_eq]); reflexivity.

(* at most 8 continuation bytes, then the last byte: 9 iterations of fuel *)
Lemma src_varintChainedSimpleEncode64_is_model : forall fuel buf v, (9 <= fuel)%nat ->
  0 <= v < 18446744073709551616 -> (N.to_nat (csimple_length (Z.to_N v)) <= length buf)%nat ->
  src_varintChainedSimpleEncode64 fuel buf v =
  COk (Z.of_N (csimple_length (Z.to_N v)), store buf 0 (csimple_encode64 (Z.to_N v))).
Proof.
  intros fuel buf v Hf Hv Hl. peel_fuel fuel 9%nat. split_cs v. all: rewrite L in *; clear L.
  all: unfold src_varintChainedSimpleEncode64, csimple_encode64; cbn [cs_enc]; unfold u8, shr; c_unfold.
  all: c_loop; finish_enc.
Qed.

Lemma src_varintChainedSimpleEncode32_is_model : forall buf v, 0 <= v <= 4294967295 ->
  (length (csimple_encode32 (Z.to_N v)) <= length buf)%nat ->
  src_varintChainedSimpleEncode32 buf v =
  COk (Z.of_nat (length (csimple_encode32 (Z.to_N v))), store buf 0 (csimple_encode32 (Z.to_N v))).
Proof.
  intros buf v Hv Hl.
  assert (C : v < 128 \/ 128 <= v < 16384 \/ 16384 <= v < 2097152 \/ 2097152 <= v < 268435456 \/ 268435456 <= v) by lia.
  unfold csimple_encode32 in *. repeat (destruct C as [C|C]).
  all: c_decide_in Hl; cbn [length] in Hl.
  all: unfold src_varintChainedSimpleEncode32, u8, shr; c_run; finish_enc.
Qed.

(* ---------- decoders ---------- *)

Lemma nland_128 b : (b < 256 -> N.land b 128 = b / 128 * 128)%N.
Proof.
  intro H. apply N2Z.inj. rewrite N2Z_land, N2Z.inj_mul, N2Z.inj_div. cbn [Z.of_N].
  apply zland_128. lia.
Qed.

Ltac split_cont z i n :=
  lazymatch n with
  | O => idtac
  | S ?n' => destruct (N.lt_ge_cases (byte_at z i) 128); [|split_cont z (S i) n']
  end.

Ltac bits :=
  closed_eval;
  repeat match goal with
  | |- context [Z.land ?b 128] => rewrite (zland_128 b) by lia
  | |- context [N.land ?b 128] => rewrite (nland_128 b) by lia
  end.
Ltac c_stepb := c_simp; bits; c_step.
Ltac c_loopb := repeat c_stepb; repeat (rewrite c_while_S; unfold bind; repeat c_stepb); c_simp; bits.

Lemma src_varintChainedSimpleDecode64_is_model : forall fuel z r, (9 <= fuel)%nat -> bytes_ok z ->
  Z.of_N (fst (csimple_decode64 z)) <= Z.of_nat (length z) ->
  src_varintChainedSimpleDecode64 fuel z r =
  COk (Z.of_N (fst (csimple_decode64 z)), Some (Z.of_N (snd (csimple_decode64 z)))).
Proof.
  intros fuel z r Hf Hz Hl. peel_fuel fuel 9%nat.
  pose proof (bytes_ok_nth z 0 Hz). pose proof (bytes_ok_nth z 1 Hz). pose proof (bytes_ok_nth z 2 Hz).
  pose proof (bytes_ok_nth z 3 Hz). pose proof (bytes_ok_nth z 4 Hz). pose proof (bytes_ok_nth z 5 Hz).
  pose proof (bytes_ok_nth z 6 Hz). pose proof (bytes_ok_nth z 7 Hz). pose proof (bytes_ok_nth z 8 Hz).
  unfold csimple_decode64 in *. cbn [cs_dec] in *.
  repeat match goal with
  | |- context [(7 * N.of_nat ?i)%N] => let v := eval vm_compute in (7 * N.of_nat i)%N in change (7 * N.of_nat i)%N with v
  end.
  rewrite ?nland_128 in Hl by assumption.
  split_cont z 0%nat 8%nat.
  all: c_decide_in Hl; cbn [fst] in Hl.
  all: unfold src_varintChainedSimpleDecode64, shl64; c_unfold.
  all: c_loopb.
  all: apply cok_pair_eq; [lia|]; f_equal; n2z_push.
  all: first [reflexivity | land_to_mod; lor_to_add7; lia].
Qed.

Lemma src_varintChainedSimpleDecode32Fallback_is_model : forall fuel z r, (9 <= fuel)%nat -> bytes_ok z ->
  Z.of_N (fst (csimple_decode64 z)) <= Z.of_nat (length z) ->
  src_varintChainedSimpleDecode32Fallback fuel z r =
  COk (Z.of_N (fst (csimple_decode32_fallback z)), Some (Z.of_N (snd (csimple_decode32_fallback z)))).
Proof.
  intros fuel z r Hf Hz Hl. unfold src_varintChainedSimpleDecode32Fallback, csimple_decode32_fallback. cbv zeta.
  c_unfold. c_simp. rewrite src_varintChainedSimpleDecode64_is_model by assumption. c_simp.
  apply cok_pair_eq; [reflexivity|]. unfold u32. rewrite N2Z.inj_mod. reflexivity.
Qed.

Lemma src_varintChainedSimpleDecode32_is_model : forall fuel z r, (9 <= fuel)%nat -> bytes_ok z ->
  Z.of_N (fst (csimple_decode64 z)) <= Z.of_nat (length z) -> (1 <= length z)%nat ->
  src_varintChainedSimpleDecode32 fuel z r =
  COk (Z.of_N (fst (csimple_decode32 z)), Some (Z.of_N (snd (csimple_decode32 z)))).
Proof.
  intros fuel z r Hf Hz Hl H1. pose proof (bytes_ok_nth z 0 Hz) as Hb.
  unfold src_varintChainedSimpleDecode32, csimple_decode32. c_unfold.
  destruct (N.lt_ge_cases (byte_at z 0) 128).
  all: repeat c_stepb; c_simp.
  - apply cok_pair_eq; [reflexivity|]. f_equal; try lia.
  - rewrite src_varintChainedSimpleDecode32Fallback_is_model by assumption. reflexivity.
Qed.
