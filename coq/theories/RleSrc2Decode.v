Require Import VV.Base VV.BaseProofs VV.Tagged VV.TaggedProofs VV.TaggedFixed VV.CSem VV.CSemProofs
  VV.TaggedSrcGet VV.TaggedSrcAdd VV.RLE VV.RleSrcProofs VV.RleSrc2Lemmas.
Require Import VVgen.Src_tagged VVgen.Src_rle.
From Coq Require Import Lia ZifyBool ZifyN ZifyNat.
Local Open Scope Z_scope.
Ltac Zify.zify_post_hook ::= Z.div_mod_to_equations.

Definition decode_inner_step : Z * Z * Z * option Z * list Z -> cres (lstep (Z * Z * Z * option Z * list Z) (Z * list Z)) :=
  ltac:(let t := eval cbv beta delta [src_varintRLEDecode] in src_varintRLEDecode in
        match t with context [@c_while _ _ _ ?st] =>
          let T := type of st in
          lazymatch T with (Z * Z * Z * option Z * list Z)%type -> _ => exact st end end).

Definition decode_outer_step (fuel : nat) (z : list N) : Z * Z * Z * list Z -> cres (lstep (Z * Z * Z * list Z) (Z * list Z)) :=
  ltac:(let t := eval cbv beta delta [src_varintRLEDecode] in (src_varintRLEDecode fuel z) in
        match t with context [@c_while _ _ _ ?st] =>
          let T := type of st in
          lazymatch T with (Z * Z * Z * list Z)%type -> _ => exact st end end).

Lemma src_varintRLEDecode_eq fuel z vals cap :
  src_varintRLEDecode fuel z vals cap =
  bind (c_while fuel (decode_outer_step fuel z) (0, cap, 0, vals))
    (fun l => match l with
              | LRet r => COk r
              | LNext (a, _, _, m) | LBreak (a, _, _, m) => COk (a, m)
              end).
Proof. reflexivity. Qed.


(* ---------- the inner `for (i = 0; i < toWrite; i++) values[totalDecoded + i] = value` ---------- *)

Lemma decode_inner_next i n b x m : 0 <= i < n -> 0 <= b ->
  b + n <= Z.of_nat (length m) -> Z.of_nat (length m) < 18446744073709551616 ->
  decode_inner_step (i, n, b, Some x, m) = COk (LNext (i + 1, n, b, Some x, zupd m (Z.to_nat (b + i)) x)).
Proof.
  intros Hi Hb Hn Hm. unfold decode_inner_step. cbv beta iota. unfold c_zstore. c_unfold. repeat c_step. c_simp.
  rewrite !Z.mod_small by lia. reflexivity.
Qed.

Lemma decode_inner_break i n b v m : n <= i ->
  decode_inner_step (i, n, b, v, m) = COk (LBreak (i, n, b, v, m)).
Proof. intros Hi. unfold decode_inner_step. cbv beta iota. c_unfold. repeat c_step. c_simp. reflexivity. Qed.

(* the whole inner loop: toWrite = n stores at b .. b+n-1 <= capacity; the list keeps its length *)
Lemma decode_inner_loop fuel n b x m (cap : nat) : 0 <= n -> 0 <= b ->
  b + n <= Z.of_nat cap -> Z.of_nat cap < 18446744073709551616 -> length m = cap -> (Z.to_nat n < fuel)%nat ->
  exists m', c_while fuel decode_inner_step (0, n, b, Some x, m) = COk (LBreak (n, n, b, Some x, m')) /\ length m' = cap.
Proof.
  intros Hn Hb Hc Hcap Hm Hf.
  apply (store_loop_len decode_inner_step n b (Some x) cap); try assumption.
  - intros i m1 Hi Hl. eexists. split; [apply decode_inner_next; lia|]. rewrite zupd_length. exact Hl.
  - intros i m1 Hi. apply decode_inner_break. exact Hi.
Qed.



(* ---------- one iteration of `while (totalDecoded < maxCount)` ---------- *)

Ltac run_inner cap :=
  match goal with
  | |- context [c_while ?fuel decode_inner_step (?i0, ?n, ?b, Some ?x, ?m)] =>
      let m' := fresh "m'" in let E := fresh "E" in let L := fresh "L" in
      destruct (decode_inner_loop fuel n b x m cap) as (m' & E & L); [lia|lia|lia|lia|assumption|lia|];
      change i0 with 0; rewrite E; clear E
  end.

Lemma decode_outer_step_ok fuel z td (cap : nat) p m : bytes_ok z ->
  0 <= td <= Z.of_nat cap -> Z.of_nat cap < 18446744073709551616 -> length m = cap -> (cap < fuel)%nat ->
  0 <= p -> (td < Z.of_nat cap -> p + 18 <= Z.of_nat (length z)) ->
  exists r, decode_outer_step fuel z (td, Z.of_nat cap, p, m) = COk r /\
    match r with
    | LNext (td', c', p', m') => td < td' <= Z.of_nat cap /\ c' = Z.of_nat cap /\ p + 2 <= p' <= p + 18 /\ length m' = cap
    | LBreak (td', c', p', m') => td <= td' <= Z.of_nat cap /\ length m' = cap
    | LRet _ => False
    end.
Proof.
  intros Hz Htd Hcap Hm Hf Hp Hr.
  unfold decode_outer_step. fold decode_inner_step. cbv beta iota.
  destruct (Z.ltb_spec td (Z.of_nat cap)) as [Lt|Ge].
  2:{ c_unfold. repeat c_step. c_simp. eexists. split; [reflexivity|]. cbv beta iota. split; [lia|assumption]. }
  specialize (Hr Lt).
  assert (Hv : bytes_ok (skipn (Z.to_nat p) z)) by (apply bytes_ok_skipn; exact Hz).
  destruct (src_varintRLEDecodeRun_total (skipn (Z.to_nat p) z) None None Hv) as (c & r & x & E & Hc & Hr' & Hx & _).
  { rewrite skipn_length. lia. }
  c_unfold. c_step. c_step. c_simp. rewrite E. c_simp.
  change (0 mod 18446744073709551616) with 0.
  (* runLength = 0: break; otherwise the run fits in the room left, or is clipped to it *)
  repeat (first [run_inner cap | c_step]). all: c_simp.
  all: eexists; (split; [reflexivity|]); cbv beta iota; rewrite ?Z.mod_small by lia;
    repeat split; try lia; try assumption.
Qed.

(* ---------- C13 for the regenerated varintRLEDecode ---------- *)

(* ANY bytes z (valid, truncated, hostile), 18 readable bytes per element of
   capacity (the loop reads at most cap runs of at most 2 x 9 bytes each: the C
   function has no source bound), ANY output list of exactly cap elements, fuel
   above cap: the outcome is a count n <= cap and a list of the same length — in
   particular not COob, which is what a store at an index >= cap would be *)
Lemma src_varintRLEDecode_cap : forall fuel z vals (cap : nat),
  bytes_ok z -> length vals = cap -> Z.of_nat cap < 18446744073709551616 ->
  18 * Z.of_nat cap <= Z.of_nat (length z) -> (cap < fuel)%nat ->
  exists n vals', src_varintRLEDecode fuel z vals (Z.of_nat cap) = COk (n, vals') /\
    0 <= n <= Z.of_nat cap /\ length vals' = cap.
Proof.
  intros fuel z vals cap Hz Hl Hcap Hlen Hf.
  rewrite src_varintRLEDecode_eq.
  pose (Inv := fun s : Z * Z * Z * list Z => let '(td, c, p, m) := s in
     0 <= td <= Z.of_nat cap /\ c = Z.of_nat cap /\ 0 <= p /\
     p + 18 * (Z.of_nat cap - td) <= Z.of_nat (length z) /\ length m = cap).
  pose (Q := fun r : lstep (Z * Z * Z * list Z) (Z * list Z) =>
     exists td c p m, r = LBreak (td, c, p, m) /\ 0 <= td <= Z.of_nat cap /\ length m = cap).
  pose (ms := fun s : Z * Z * Z * list Z => let '(td, _, _, _) := s in Z.to_nat (Z.of_nat cap - td)).
  assert (Hstep : forall s, Inv s -> exists r, decode_outer_step fuel z s = COk r /\
            match r with LNext s' => Inv s' /\ (ms s' < ms s)%nat | _ => Q r end).
  { intros [[[td c] p] m] (Htd & -> & Hp & Hr & Hm).
    destruct (decode_outer_step_ok fuel z td cap p m Hz Htd Hcap Hm Hf Hp ltac:(lia)) as (r & E & P).
    exists r. split; [exact E|].
    destruct r as [[[[td' c'] p'] m']|[[[td' c'] p'] m']|r]; [| |contradiction].
    - destruct P as (P1 & -> & P3 & P4). unfold Inv, ms. repeat split; try lia; assumption.
    - destruct P as (P1 & P2). exists td', c', p', m'. repeat split; try lia; assumption. }
  destruct (c_while_inv Inv Q ms (decode_outer_step fuel z) Hstep fuel (0, Z.of_nat cap, 0, vals)) as [_ B].
  { unfold Inv. repeat split; try lia; assumption. }
  destruct (B ltac:(unfold ms; lia)) as (r & E & (td & c & p & m & -> & P1 & P2)).
  rewrite E. cbn [bind]. exists td, m. repeat split; try lia; assumption.
Qed.
