(* ConcCodec2.v — C17, the general shape of a stateless codec call in the
   interleaving semantics of Conc.v:

     read every cell of the input regions (which may be shared with any
     number of other calls), compute with a pure function, write the result
     cell by cell at the destination, return.

   `calls_safe`: any list of such calls in which nobody's destination window
   [dst, dst + bound) meets another call's window or inputs is, under EVERY
   schedule, race-free; a call that has finished returned what its pure
   function returns on the INITIAL contents of its inputs and left exactly
   its output at its destination.  `bound` is the proven size bound of the
   codec (C01/C03/C13): it is what makes "disjoint destinations" sufficient.

   `codec_threads_safe` is the scalar-codec form (encoders `enc : A -> bytes`
   with `length (enc a) <= B`, decoders reading their first bytes), of which
   ConcCodec.tagged_threads_safe is a corollary (`tagged_threads_safe_again`,
   which moreover says what a finished decoder returned). *)
Require Import VV.Conc VV.ConcProofs VV.ConcCodec.
From Coq Require Import List NArith Arith Lia Bool.
Import ListNotations.
Local Open Scope N_scope.

(* ------------------------------------------------------------------ *)
(* the contents of n cells from s on *)
Fixpoint peek (m : mem) (s : loc) (n : nat) : list N :=
  match n with
  | O => []
  | S k => m s :: peek m (s + 1) k
  end.

Lemma peek_length m s n : length (peek m s n) = n.
Proof. revert s. induction n as [|n IH]; intro s; cbn [peek length]; [reflexivity|rewrite IH; reflexivity]. Qed.

Lemma peek_nth m s n j : (j < n)%nat -> nth j (peek m s n) 0 = m (s + N.of_nat j).
Proof.
  revert s j. induction n as [|n IH]; intros s j Hj; [lia|].
  cbn [peek]. destruct j as [|j]; cbn [nth].
  - f_equal. lia.
  - rewrite IH by lia. f_equal. lia.
Qed.

Lemma peek_ext m m' s n : (forall l, in_range s n l -> m l = m' l) -> peek m s n = peek m' s n.
Proof.
  revert s. induction n as [|n IH]; intros s H; cbn [peek]; [reflexivity|].
  f_equal.
  - apply H. unfold in_range. lia.
  - apply IH. intros l Hl. apply H. unfold in_range in *. lia.
Qed.

Lemma run_read_bytes m s n acc k :
  run m (read_bytes s n acc k) = run m (k (rev acc ++ peek m s n)).
Proof.
  revert s acc. induction n as [|n IH]; intros s acc; cbn [read_bytes run peek].
  - rewrite app_nil_r. reflexivity.
  - rewrite IH. cbn [rev]. rewrite <- app_assoc. reflexivity.
Qed.

(* as ConcCodec.within_read_bytes, remembering how many cells were read *)
Lemma within_read_bytes_len (R W : loc -> Prop) src n acc k :
  (forall l, in_range src n l -> R l) ->
  (forall bs, length bs = (length acc + n)%nat -> within R W (k bs)) ->
  within R W (read_bytes src n acc k).
Proof.
  revert src acc. induction n as [|m IH]; intros src acc Hr Hk; cbn [read_bytes].
  - apply Hk. rewrite rev_length. lia.
  - constructor.
    + left. apply Hr. unfold in_range. lia.
    + intro v. apply IH.
      * intros l Hl. apply Hr. unfold in_range in *. lia.
      * intros bs Hb. apply Hk. cbn [length] in Hb. lia.
Qed.

(* ------------------------------------------------------------------ *)
(* several input regions, read one after the other *)
Fixpoint read_regions (rs : list (loc * nat)) (acc : list (list N))
    (k : list (list N) -> prog) : prog :=
  match rs with
  | [] => k (rev acc)
  | r :: t => read_bytes (fst r) (snd r) [] (fun bs => read_regions t (bs :: acc) k)
  end.

Definition peeks (m : mem) (rs : list (loc * nat)) : list (list N) :=
  map (fun r => peek m (fst r) (snd r)) rs.

(* what a reader of regions rs can obtain: one list per region, of its length *)
Definition shape (rs : list (loc * nat)) (ins : list (list N)) : Prop :=
  Forall2 (fun r bs => length bs = snd r) rs ins.

Lemma shape_peeks m rs : shape rs (peeks m rs).
Proof. induction rs as [|r t IH]; constructor; [apply peek_length|exact IH]. Qed.

Lemma run_read_regions m rs acc k :
  run m (read_regions rs acc k) = run m (k (rev acc ++ peeks m rs)).
Proof.
  revert acc. induction rs as [|r t IH]; intro acc; cbn [read_regions peeks map].
  - rewrite app_nil_r. reflexivity.
  - rewrite run_read_bytes. cbn [rev app]. rewrite IH. cbn [rev]. rewrite <- app_assoc. reflexivity.
Qed.

Lemma within_read_regions (R W : loc -> Prop) rs acc k :
  (forall r l, In r rs -> in_range (fst r) (snd r) l -> R l) ->
  (forall ins, shape rs ins -> within R W (k (rev acc ++ ins))) ->
  within R W (read_regions rs acc k).
Proof.
  revert acc. induction rs as [|r t IH]; intros acc Hr Hk; cbn [read_regions].
  - rewrite <- (app_nil_r (rev acc)). apply Hk. constructor.
  - apply within_read_bytes_len.
    + intros l Hl. apply (Hr r l); [left; reflexivity|exact Hl].
    + intros bs Hb. apply IH.
      * intros r' l Hin Hl. apply (Hr r' l); [right; exact Hin|exact Hl].
      * intros ins Hs. cbn [rev]. rewrite <- app_assoc. apply Hk. constructor; [exact Hb|exact Hs].
Qed.

(* ------------------------------------------------------------------ *)
(* a stateless call *)
Record call := mk_call {
  c_reads : list (loc * nat);                  (* input regions (start, cells) *)
  c_dst : loc;                                 (* destination *)
  c_bound : nat;                               (* proven bound of the output size *)
  c_fn : list (list N) -> list N * list N      (* inputs -> (cells written, values returned) *)
}.

Definition call_ok (c : call) : Prop :=
  forall ins, shape (c_reads c) ins -> (length (fst (c_fn c ins)) <= c_bound c)%nat.

Definition call_prog (c : call) : prog :=
  read_regions (c_reads c) []
    (fun ins => write_bytes (c_dst c) (fst (c_fn c ins)) (Ret (snd (c_fn c ins)))).

Definition call_R (c : call) (l : loc) : Prop :=
  exists r, In r (c_reads c) /\ in_range (fst r) (snd r) l.
Definition call_W (c : call) (l : loc) : Prop := in_range (c_dst c) (c_bound c) l.

Lemma call_prog_within c : call_ok c -> within (call_R c) (call_W c) (call_prog c).
Proof.
  intro Hok. unfold call_prog. apply within_read_regions.
  - intros r l Hin Hl. exists r. split; assumption.
  - intros ins Hs. cbn [rev app]. apply within_write_bytes; [|constructor].
    intros l Hl. pose proof (Hok ins Hs). unfold call_W, in_range in *. lia.
Qed.

Lemma call_prog_run m c :
  run m (call_prog c) =
  run m (write_bytes (c_dst c) (fst (c_fn c (peeks m (c_reads c))))
           (Ret (snd (c_fn c (peeks m (c_reads c)))))).
Proof. unfold call_prog. rewrite run_read_regions. reflexivity. Qed.

Section Calls.
  Variable cs : list call.
  Variable m0 : mem.
  Hypothesis all_ok : forall c, In c cs -> call_ok c.
  (* nobody's destination window meets another call's window or inputs *)
  Hypothesis apart : forall i j ci cj, i <> j ->
    nth_error cs i = Some ci -> nth_error cs j = Some cj ->
    forall l, call_W cj l -> ~ (call_R ci l \/ call_W ci l).

  Let cRs (i : nat) (l : loc) : Prop :=
    match nth_error cs i with Some c => call_R c l | None => False end.
  Let cWs (i : nat) (l : loc) : Prop :=
    match nth_error cs i with Some c => call_W c l | None => False end.

  Lemma calls_disjoint i j l : i <> j -> cWs j l -> ~ (cRs i l \/ cWs i l).
  Proof.
    unfold cRs, cWs. intros NE Wj.
    destruct (nth_error cs j) as [cj|] eqn:Ej; [|contradiction].
    destruct (nth_error cs i) as [ci|] eqn:Ei; [|intros [F|F]; exact F].
    exact (apart i j ci cj NE Ei Ej l Wj).
  Qed.

  Lemma calls_footprints i p : nth_error (map call_prog cs) i = Some p -> within (cRs i) (cWs i) p.
  Proof.
    intro H. rewrite nth_error_map in H. unfold cRs, cWs.
    destruct (nth_error cs i) as [c|] eqn:E; [|discriminate].
    cbn [option_map] in H. injection H as <-.
    apply call_prog_within. apply all_ok. exact (nth_error_In _ _ E).
  Qed.

  Theorem calls_safe sched :
    ~ races (snd (crun sched (m0, map call_prog cs))) /\
    forall i c r, nth_error cs i = Some c ->
      nth_error (snd (crun sched (m0, map call_prog cs))) i = Some (Ret r) ->
      r = snd (c_fn c (peeks m0 (c_reads c))) /\
      forall j, (j < length (fst (c_fn c (peeks m0 (c_reads c)))))%nat ->
        fst (crun sched (m0, map call_prog cs)) (c_dst c + N.of_nat j)
        = nth j (fst (c_fn c (peeks m0 (c_reads c)))) 0.
  Proof.
    split.
    - apply (interleaving_race_free cRs cWs calls_disjoint m0 _ calls_footprints).
    - intros i c r Hc Hr.
      assert (Hp : nth_error (map call_prog cs) i = Some (call_prog c))
        by (rewrite nth_error_map, Hc; reflexivity).
      destruct (interleaving_sequentially_equivalent cRs cWs calls_disjoint m0 _
                  calls_footprints sched i _ r Hp Hr) as [Er Em].
      rewrite call_prog_run in Er, Em. rewrite run_write_ret in Er. split; [exact Er|].
      intros j Hj. rewrite Em.
      + apply run_write_mem. exact Hj.
      + right. unfold cWs. rewrite Hc. unfold call_W, in_range.
        pose proof (all_ok c (nth_error_In _ _ Hc) _ (shape_peeks m0 (c_reads c))). lia.
  Qed.
End Calls.

(* ------------------------------------------------------------------ *)
(* a homogeneous family: the same kind of call with different arguments *)
Section Family.
  Variable P : Type.
  Variable mk : P -> call.

  Theorem family_safe (ps : list P) (m0 : mem) :
    (forall p, In p ps -> call_ok (mk p)) ->
    (forall i j pi pj, i <> j -> nth_error ps i = Some pi -> nth_error ps j = Some pj ->
       forall l, call_W (mk pj) l -> ~ (call_R (mk pi) l \/ call_W (mk pi) l)) ->
    forall sched,
    ~ races (snd (crun sched (m0, map (fun p => call_prog (mk p)) ps))) /\
    forall i p r, nth_error ps i = Some p ->
      nth_error (snd (crun sched (m0, map (fun p => call_prog (mk p)) ps))) i = Some (Ret r) ->
      r = snd (c_fn (mk p) (peeks m0 (c_reads (mk p)))) /\
      forall j, (j < length (fst (c_fn (mk p) (peeks m0 (c_reads (mk p))))))%nat ->
        fst (crun sched (m0, map (fun p => call_prog (mk p)) ps)) (c_dst (mk p) + N.of_nat j)
        = nth j (fst (c_fn (mk p) (peeks m0 (c_reads (mk p))))) 0.
  Proof.
    intros Hok Hap sched.
    rewrite <- (map_map mk call_prog).
    assert (OK : forall c, In c (map mk ps) -> call_ok c).
    { intros c Hc. apply in_map_iff in Hc. destruct Hc as (p & <- & Hp). apply Hok. exact Hp. }
    assert (AP : forall i j ci cj, i <> j -> nth_error (map mk ps) i = Some ci ->
                 nth_error (map mk ps) j = Some cj ->
                 forall l, call_W cj l -> ~ (call_R ci l \/ call_W ci l)).
    { intros i j ci cj NE Hi Hj. rewrite nth_error_map in Hi, Hj.
      destruct (nth_error ps i) as [pi|] eqn:Ei; [|discriminate].
      destruct (nth_error ps j) as [pj|] eqn:Ej; [|discriminate].
      cbn [option_map] in Hi, Hj. injection Hi as <-. injection Hj as <-.
      exact (Hap i j pi pj NE Ei Ej). }
    destruct (calls_safe (map mk ps) m0 OK AP sched) as [NR SE].
    split; [exact NR|].
    intros i p r Hp Hr. apply (SE i (mk p) r); [|exact Hr].
    rewrite nth_error_map, Hp. reflexivity.
  Qed.
End Family.

(* ------------------------------------------------------------------ *)
(* scalar codecs: encoder calls  write_bytes dst (enc a) (Ret (eret a))  and
   decoder calls  read_bytes src (rlen d) [] (fun bs => Ret (dec d bs)) *)
Section Codec.
  Variables A D : Type.
  Variable enc : A -> list N.       (* bytes the encoder writes *)
  Variable eret : A -> list N.      (* what it returns (its length) *)
  Variable B : nat.                 (* bound of the encoded length *)
  Variable rlen : D -> nat.         (* bytes a decoder call reads *)
  Variable dec : D -> list N -> list N.

  Definition enc_call (da : loc * A) : prog :=
    write_bytes (fst da) (enc (snd da)) (Ret (eret (snd da))).
  Definition dec_call (sd : loc * D) : prog :=
    read_bytes (fst sd) (rlen (snd sd)) [] (fun bs => Ret (dec (snd sd) bs)).
  Definition codec_threads (encs : list (loc * A)) (decs : list (loc * D)) : list prog :=
    map enc_call encs ++ map dec_call decs.

  Definition enc_as_call (da : loc * A) : call :=
    mk_call [] (fst da) B (fun _ => (enc (snd da), eret (snd da))).
  Definition dec_as_call (sd : loc * D) : call :=
    mk_call [(fst sd, rlen (snd sd))] 0 0 (fun ins => ([], dec (snd sd) (hd [] ins))).

  Lemma codec_threads_calls encs decs :
    codec_threads encs decs = map call_prog (map enc_as_call encs ++ map dec_as_call decs).
  Proof.
    unfold codec_threads. rewrite map_app, !map_map. f_equal; apply map_ext; intro; reflexivity.
  Qed.

  Variable encs : list (loc * A).
  Variable decs : list (loc * D).
  Variable m0 : mem.
  Hypothesis enc_bound : forall d a, In (d, a) encs -> (length (enc a) <= B)%nat.
  Hypothesis disjoint_dst : forall i j di ai dj aj, i <> j ->
    nth_error encs i = Some (di, ai) -> nth_error encs j = Some (dj, aj) ->
    forall l, in_range di B l -> ~ in_range dj B l.
  Hypothesis readers_apart : forall d a s p l, In (d, a) encs -> In (s, p) decs ->
    in_range d B l -> ~ in_range s (rlen p) l.

  Let cs := map enc_as_call encs ++ map dec_as_call decs.

  Lemma cs_nth_enc i c : (i < length encs)%nat -> nth_error cs i = Some c ->
    exists d a, nth_error encs i = Some (d, a) /\ c = enc_as_call (d, a).
  Proof.
    intros Hi H. unfold cs in H. rewrite nth_error_app1 in H by (rewrite map_length; exact Hi).
    rewrite nth_error_map in H. destruct (nth_error encs i) as [[d a]|] eqn:E; [|discriminate].
    cbn [option_map] in H. injection H as <-. exists d, a. split; reflexivity.
  Qed.

  Lemma cs_nth_dec i c : (length encs <= i)%nat -> nth_error cs i = Some c ->
    exists s p, nth_error decs (i - length encs) = Some (s, p) /\ c = dec_as_call (s, p).
  Proof.
    intros Hi H. unfold cs in H. rewrite nth_error_app2 in H by (rewrite map_length; exact Hi).
    rewrite map_length, nth_error_map in H.
    destruct (nth_error decs (i - length encs)) as [[s p]|] eqn:E; [|discriminate].
    cbn [option_map] in H. injection H as <-. exists s, p. split; reflexivity.
  Qed.

  Lemma cs_ok c : In c cs -> call_ok c.
  Proof.
    unfold cs. intro H. apply in_app_or in H. destruct H as [H|H]; apply in_map_iff in H.
    - destruct H as ([d a] & <- & Hin). intros ins _. cbn. exact (enc_bound d a Hin).
    - destruct H as ([s p] & <- & Hin). intros ins _. cbn. lia.
  Qed.

  Lemma cs_apart i j ci cj : i <> j -> nth_error cs i = Some ci -> nth_error cs j = Some cj ->
    forall l, call_W cj l -> ~ (call_R ci l \/ call_W ci l).
  Proof.
    intros NE Hi Hj l Wj.
    destruct (Nat.lt_ge_cases j (length encs)) as [Lj|Gj].
    2:{ destruct (cs_nth_dec j cj Gj Hj) as (s & p & _ & ->).
        unfold call_W, in_range in Wj. cbn in Wj. lia. }
    destruct (cs_nth_enc j cj Lj Hj) as (dj & aj & Ej & ->).
    unfold call_W in Wj. cbn [enc_as_call c_dst c_bound fst] in Wj.
    destruct (Nat.lt_ge_cases i (length encs)) as [Li|Gi].
    - destruct (cs_nth_enc i ci Li Hi) as (di & ai & Ei & ->).
      intros [(r & F & _)|Wi]; [exact F|].
      unfold call_W in Wi. cbn [enc_as_call c_dst c_bound fst] in Wi.
      exact (disjoint_dst j i dj aj di ai (fun e => NE (eq_sym e)) Ej Ei l Wj Wi).
    - destruct (cs_nth_dec i ci Gi Hi) as (s & p & Es & ->).
      intros [(r & [<-|F] & Hr)|Wi]; [|exact F|].
      + cbn [fst snd] in Hr.
        exact (readers_apart dj aj s p l (nth_error_In _ _ Ej) (nth_error_In _ _ Es) Wj Hr).
      + unfold call_W, in_range in Wi. cbn in Wi. lia.
  Qed.

  (* every schedule: no race; a finished encoder returned eret a and left
     enc a at its destination; a finished decoder returned dec of the bytes
     the initial memory holds at its source *)
  Theorem codec_threads_safe sched :
    ~ races (snd (crun sched (m0, codec_threads encs decs))) /\
    (forall i d a r, nth_error encs i = Some (d, a) ->
       nth_error (snd (crun sched (m0, codec_threads encs decs))) i = Some (Ret r) ->
       r = eret a /\
       forall j, (j < length (enc a))%nat ->
         fst (crun sched (m0, codec_threads encs decs)) (d + N.of_nat j) = nth j (enc a) 0) /\
    (forall k s p r, nth_error decs k = Some (s, p) ->
       nth_error (snd (crun sched (m0, codec_threads encs decs))) (length encs + k) = Some (Ret r) ->
       r = dec p (peek m0 s (rlen p))).
  Proof.
    rewrite codec_threads_calls. fold cs.
    destruct (calls_safe cs m0 cs_ok cs_apart sched) as [NR SE].
    split; [exact NR|]. split.
    - intros i d a r Hi Hr.
      assert (Hc : nth_error cs i = Some (enc_as_call (d, a))).
      { unfold cs. rewrite nth_error_app1 by (rewrite map_length; apply nth_error_Some; congruence).
        rewrite nth_error_map, Hi. reflexivity. }
      exact (SE i _ r Hc Hr).
    - intros k s p r Hk Hr.
      assert (Hc : nth_error cs (length encs + k) = Some (dec_as_call (s, p))).
      { unfold cs. rewrite nth_error_app2 by (rewrite map_length; lia).
        rewrite map_length. replace (length encs + k - length encs)%nat with k by lia.
        rewrite nth_error_map, Hk. reflexivity. }
      destruct (SE _ _ r Hc Hr) as [Er _]. exact Er.
  Qed.
End Codec.

(* how decoder results are returned as values *)
Definition ret_opt (o : option N) : list N :=
  match o with Some v => [1; v] | None => [0] end.
Definition ret_opt2 (o : option (N * N)) : list N :=
  match o with Some (a, b) => [1; a; b] | None => [0] end.

(* ------------------------------------------------------------------ *)
(* ConcCodec.tagged_threads_safe again, as a corollary, for every initial
   memory, and with the decoders' results *)
Require Import VV.Base VV.Tagged VV.TaggedProofs VV.TaggedSpecProofs.

Lemma tagged_threads_as_codec dsts xs srcs :
  threads dsts xs srcs =
  codec_threads N unit tagged_put64 (fun x => [tagged_len x]) (fun _ => 9%nat)
    (fun _ bs => [fst (tagged_get bs 9); snd (tagged_get bs 9)])
    (combine dsts xs) (map (fun s => (s, tt)) srcs).
Proof.
  unfold threads, codec_threads. f_equal. rewrite map_map. apply map_ext. intro; reflexivity.
Qed.

Lemma nth_error_combine_nth (dsts : list loc) (xs : list N) i d x :
  nth_error (combine dsts xs) i = Some (d, x) ->
  (i < length dsts)%nat /\ (i < length xs)%nat /\ d = nth i dsts 0 /\ x = nth i xs 0.
Proof.
  revert xs i. induction dsts as [|d0 t IH]; intros [|x0 xt] [|i] H; cbn in H; try discriminate.
  - injection H as <- <-. cbn. repeat split; lia.
  - destruct (IH xt i H) as (A & B & C & E). cbn [length nth]. repeat split; try lia; assumption.
Qed.

Theorem tagged_threads_safe_again (dsts : list loc) (xs : list N) (srcs : list loc) (m0 : mem) :
  length dsts = length xs ->
  (forall i j, i <> j -> (i < length dsts)%nat -> (j < length dsts)%nat ->
     forall l, in_range (nth i dsts 0) 9 l -> ~ in_range (nth j dsts 0) 9 l) ->
  (forall i s l, (i < length dsts)%nat -> In s srcs ->
     in_range (nth i dsts 0) 9 l -> ~ in_range s 9 l) ->
  forall sched,
  ~ races (snd (crun sched (m0, threads dsts xs srcs))) /\
  (forall i r, (i < length dsts)%nat ->
     nth_error (snd (crun sched (m0, threads dsts xs srcs))) i = Some (Ret r) ->
     r = [tagged_len (nth i xs 0)] /\
     forall j, (j < length (tagged_put64 (nth i xs 0%N)))%nat ->
       fst (crun sched (m0, threads dsts xs srcs)) (nth i dsts 0 + N.of_nat j)
       = nth j (tagged_put64 (nth i xs 0)) 0) /\
  (forall k r, (k < length srcs)%nat ->
     nth_error (snd (crun sched (m0, threads dsts xs srcs))) (length dsts + k) = Some (Ret r) ->
     r = [fst (tagged_get (peek m0 (nth k srcs 0) 9) 9); snd (tagged_get (peek m0 (nth k srcs 0) 9) 9)]).
Proof.
  intros SL DD RA sched. rewrite tagged_threads_as_codec.
  destruct (codec_threads_safe N unit tagged_put64 (fun x => [tagged_len x]) 9 (fun _ => 9%nat)
              (fun _ bs => [fst (tagged_get bs 9); snd (tagged_get bs 9)])
              (combine dsts xs) (map (fun s => (s, tt)) srcs) m0) with (sched := sched) as (NR & SE & SD).
  - intros d a _. pose proof (tagged_put_length a). pose proof (tagged_len_range a). lia.
  - intros i j di ai dj aj NE Hi Hj l.
    destruct (nth_error_combine_nth _ _ _ _ _ Hi) as (Li & _ & -> & _).
    destruct (nth_error_combine_nth _ _ _ _ _ Hj) as (Lj & _ & -> & _).
    apply DD; assumption.
  - intros d a s p l Hin Hs. apply In_nth_error in Hin. destruct Hin as [i Hi].
    destruct (nth_error_combine_nth _ _ _ _ _ Hi) as (Li & _ & -> & _).
    apply in_map_iff in Hs. destruct Hs as (s' & E & Hs'). injection E as <- _.
    apply RA; assumption.
  - split; [exact NR|]. split.
    + intros i r Hi Hr. apply (SE i (nth i dsts 0) (nth i xs 0) r); [|exact Hr].
      rewrite (nth_error_nth' (combine dsts xs) (0, 0)) by (rewrite combine_length; lia).
      rewrite combine_nth by exact SL. reflexivity.
    + intros k r Hk Hr.
      assert (LC : length (combine dsts xs) = length dsts) by (rewrite combine_length; lia).
      rewrite <- LC in Hr.
      apply (SD k (nth k srcs 0) tt r); [|exact Hr].
      rewrite nth_error_map, (nth_error_nth' srcs 0 Hk). reflexivity.
Qed.

(* the statement of ConcCodec.tagged_threads_safe, obtained from the generic
   theorem *)
Corollary tagged_threads_safe_from_generic (dsts : list loc) (xs : list N) :
  length dsts = length xs ->
  (forall i j, i <> j -> (i < length dsts)%nat -> (j < length dsts)%nat ->
     forall l, in_range (nth i dsts 0) 9 l -> ~ in_range (nth j dsts 0) 9 l) ->
  forall srcs : list loc,
  (forall i s l, (i < length dsts)%nat -> In s srcs ->
     in_range (nth i dsts 0) 9 l -> ~ in_range s 9 l) ->
  forall sched,
  ~ races (snd (crun sched (mem0, threads dsts xs srcs))) /\
  forall i r, (i < length dsts)%nat ->
    nth_error (snd (crun sched (mem0, threads dsts xs srcs))) i = Some (Ret r) ->
    r = [tagged_len (nth i xs 0)] /\
    forall j, (j < length (tagged_put64 (nth i xs 0%N)))%nat ->
      fst (crun sched (mem0, threads dsts xs srcs)) (nth i dsts 0 + N.of_nat j)
      = nth j (tagged_put64 (nth i xs 0)) 0.
Proof.
  intros SL DD srcs RA sched.
  destruct (tagged_threads_safe_again dsts xs srcs mem0 SL DD RA sched) as (NR & SE & _).
  split; assumption.
Qed.

(* ------------------------------------------------------------------ *)
(* for the non-vacuity examples: an initial memory given by a list of cells
   from address 0 on, and a round-robin schedule *)
Definition mem_list (bs : list N) : mem := fun l => nth (N.to_nat l) bs 0.
Fixpoint rr (rounds n : nat) : list nat :=
  match rounds with
  | O => []
  | S k => seq 0 n ++ rr k n
  end.
