(* PackedLemmas.v — generic bit-level lemmas used by the packed-array proofs:
   N.testbit of the Base.v machine operations, fields inside a slot, division
   of bit offsets by the slot width.  Nothing here mentions the packed model. *)
Require Import VV.Base VV.BaseProofs.
From Coq Require Import Lia ZifyBool ZifyN ZifyNat.
Local Open Scope N_scope.
Ltac Zify.zify_post_hook ::= Z.div_mod_to_equations.

(* ---- testbit of the machine operations ---- *)
Lemma tb_small x k n : x < 2 ^ k -> k <= n -> N.testbit x n = false.
Proof.
  intros Hx Hk. destruct (N.eq_dec x 0) as [->|H0]; [apply N.bits_0|].
  apply N.bits_above_log2. apply N.lt_le_trans with k; [|exact Hk].
  apply N.log2_lt_pow2; lia.
Qed.

Lemma lt_pow2_bits x k : (forall n, k <= n -> N.testbit x n = false) -> x < 2 ^ k.
Proof.
  intro H. destruct (N.eq_dec x 0) as [->|H0].
  - apply N.neq_0_lt_0. apply N.pow_nonzero. lia.
  - apply N.log2_lt_pow2; [lia|].
    destruct (N.lt_ge_cases (N.log2 x) k) as [L|L]; [exact L|].
    specialize (H _ L). rewrite N.bit_log2 in H by exact H0. discriminate.
Qed.

Lemma tb_shr x k n : N.testbit (shr x k) n = N.testbit x (n + k).
Proof. unfold shr. apply N.div_pow2_bits. Qed.

Lemma tb_trunc_gen b x n : N.testbit (x mod 2 ^ b) n = (n <? b) && N.testbit x n.
Proof.
  destruct (N.ltb_spec n b) as [H|H].
  - rewrite N.mod_pow2_bits_low by exact H. reflexivity.
  - rewrite N.mod_pow2_bits_high by exact H. reflexivity.
Qed.

Lemma tb_mulpow x k n : N.testbit (x * 2 ^ k) n = (k <=? n) && N.testbit x (n - k).
Proof.
  destruct (N.leb_spec k n) as [H|H].
  - rewrite N.mul_pow2_bits_high by exact H. reflexivity.
  - rewrite N.mul_pow2_bits_low by exact H. reflexivity.
Qed.

Lemma tb_shl64 x k n : N.testbit (shl64 x k) n = (n <? 64) && ((k <=? n) && N.testbit x (n - k)).
Proof. unfold shl64. change 18446744073709551616 with (2 ^ 64). rewrite tb_trunc_gen, tb_mulpow. reflexivity. Qed.

Lemma tb_shl32 x k n : N.testbit (shl32 x k) n = (n <? 32) && ((k <=? n) && N.testbit x (n - k)).
Proof. unfold shl32. change 4294967296 with (2 ^ 32). rewrite tb_trunc_gen, tb_mulpow. reflexivity. Qed.

Lemma tb_lnot64 x n : N.testbit (N.lnot x 64) n = if n <? 64 then negb (N.testbit x n) else N.testbit x n.
Proof.
  destruct (N.ltb_spec n 64) as [H|H].
  - apply N.lnot_spec_low. exact H.
  - apply N.lnot_spec_high. exact H.
Qed.

Lemma tb_ones w n : N.testbit (N.ones w) n = (n <? w).
Proof.
  destruct (N.ltb_spec n w) as [H|H].
  - apply N.ones_spec_low. exact H.
  - apply N.ones_spec_high. exact H.
Qed.

Lemma mod_small_pow x a b : x < 2 ^ a -> a <= b -> x mod 2 ^ b = x.
Proof.
  intros H L. apply N.mod_small. apply N.lt_le_trans with (2 ^ a); [exact H|].
  apply N.pow_le_mono_r; lia.
Qed.

(* (1ULL << w) - 1 for w < 64 *)
Lemma ones_sub64 w : w < 64 -> sub64 (shl64 1 w) 1 = N.ones w.
Proof.
  intro H. unfold sub64, shl64. change 18446744073709551616 with (2 ^ 64).
  rewrite N.ones_equiv. rewrite N.mul_1_l.
  assert (P : 2 ^ w < 2 ^ 64) by (apply N.pow_lt_mono_r; lia).
  assert (Q : 0 < 2 ^ w) by (apply N.neq_0_lt_0, N.pow_nonzero; lia).
  rewrite (N.mod_small (2 ^ w)) by exact P.
  rewrite (N.mod_small 1) by (change (2 ^ 64) with 18446744073709551616; lia).
  replace (2 ^ w + 2 ^ 64 - 1) with ((2 ^ w - 1) + 1 * 2 ^ 64) by lia.
  rewrite N.mod_add by lia. rewrite N.mod_small by lia. lia.
Qed.

Lemma ones_lt w : N.ones w < 2 ^ w.
Proof.
  rewrite N.ones_equiv. assert (0 < 2 ^ w) by (apply N.neq_0_lt_0, N.pow_nonzero; lia). lia.
Qed.

(* ---- a w-bit field written into / read from a slot of sb <= 64 bits ----
   write_lo : the C expression  (SLOT)((s & ~(mask << p)) | (v << p))
   write_hi : the C expression  (SLOT)((s & ~(mask >> q)) | (v >> q))          *)
Definition write_lo (sb w s p v : N) : N :=
  (N.lor (N.land s (N.lnot (shl64 (N.ones w) p) 64)) (shl64 v p)) mod 2 ^ sb.
Definition write_hi (sb w s q v : N) : N :=
  (N.lor (N.land s (N.lnot (shr (N.ones w) q) 64)) (shr v q)) mod 2 ^ sb.

Lemma tb_write_lo sb w s p v j : sb <= 64 -> v < 2 ^ w ->
  N.testbit (write_lo sb w s p v) j =
  (j <? sb) && (if (p <=? j) && (j <? p + w) then N.testbit v (j - p) else N.testbit s j).
Proof.
  intros Hsb Hv. unfold write_lo.
  rewrite tb_trunc_gen, N.lor_spec, N.land_spec, tb_lnot64, !tb_shl64, tb_ones.
  destruct (N.ltb_spec j sb) as [Hj|Hj]; [|reflexivity]. cbn [andb].
  assert (J64 : (j <? 64) = true) by (apply N.ltb_lt; lia). rewrite J64. cbn [andb].
  destruct (N.leb_spec p j) as [Hp|Hp]; cbn [andb].
  - destruct (N.ltb_spec j (p + w)) as [Hq|Hq].
    + assert (E : (j - p <? w) = true) by (apply N.ltb_lt; lia). rewrite E. cbn [negb].
      rewrite andb_false_r. reflexivity.
    + assert (E : (j - p <? w) = false) by (apply N.ltb_ge; lia). rewrite E. cbn [negb].
      rewrite andb_true_r. rewrite (tb_small v w (j - p)) by (assumption || lia).
      apply orb_false_r.
  - cbn [negb]. rewrite andb_true_r. apply orb_false_r.
Qed.

Lemma tb_write_hi sb w s q v j : sb <= 64 -> v < 2 ^ w ->
  N.testbit (write_hi sb w s q v) j =
  (j <? sb) && (if j + q <? w then N.testbit v (j + q) else N.testbit s j).
Proof.
  intros Hsb Hv. unfold write_hi.
  rewrite tb_trunc_gen, N.lor_spec, N.land_spec, tb_lnot64, !tb_shr, tb_ones.
  destruct (N.ltb_spec j sb) as [Hj|Hj]; [|reflexivity]. cbn [andb].
  assert (J64 : (j <? 64) = true) by (apply N.ltb_lt; lia). rewrite J64.
  destruct (N.ltb_spec (j + q) w) as [Hq|Hq]; cbn [negb].
  - rewrite andb_false_r. reflexivity.
  - rewrite andb_true_r. rewrite (tb_small v w (j + q)) by (assumption || lia). apply orb_false_r.
Qed.

Lemma write_lo_lt sb w s p v : sb <= 64 -> write_lo sb w s p v < 2 ^ sb.
Proof. intros. unfold write_lo. apply N.mod_lt. apply N.pow_nonzero. lia. Qed.
Lemma write_hi_lt sb w s q v : sb <= 64 -> write_hi sb w s q v < 2 ^ sb.
Proof. intros. unfold write_hi. apply N.mod_lt. apply N.pow_nonzero. lia. Qed.

(* ---- bit offsets and slots ---- *)
Lemma divmod_lo sb x j : 0 < sb -> x mod sb + j < sb ->
  (x + j) / sb = x / sb /\ (x + j) mod sb = x mod sb + j.
Proof.
  intros Hs Hj. pose proof (N.div_mod' x sb) as D.
  split; symmetry.
  - apply (N.div_unique (x + j) sb (x / sb) (x mod sb + j)); lia.
  - apply (N.mod_unique (x + j) sb (x / sb) (x mod sb + j)); lia.
Qed.

Lemma divmod_hi sb x j : 0 < sb -> sb <= x mod sb + j -> x mod sb + j < 2 * sb ->
  (x + j) / sb = x / sb + 1 /\ (x + j) mod sb = x mod sb + j - sb.
Proof.
  intros Hs Hj1 Hj2. pose proof (N.div_mod' x sb) as D.
  split; symmetry.
  - apply (N.div_unique (x + j) sb (x / sb + 1) (x mod sb + j - sb)); lia.
  - apply (N.mod_unique (x + j) sb (x / sb + 1) (x mod sb + j - sb)); lia.
Qed.

(* the start bit of any element is a multiple of gcd(w, sb), hence at most sb - gcd *)
Lemma startbit_gcd w sb i : 0 < sb -> (i * w) mod sb + N.gcd w sb <= sb.
Proof.
  intro Hs. set (g := N.gcd w sb).
  assert (Gw : (g | w)) by apply N.gcd_divide_l.
  assert (Gs : (g | sb)) by apply N.gcd_divide_r.
  assert (Gp : 0 < g).
  { destruct (N.eq_dec g 0) as [E|E]; [|lia]. unfold g in E. apply N.gcd_eq_0_r in E. lia. }
  destruct Gs as [s' Es]. destruct Gw as [w' Ew].
  assert (Gr : (g | (i * w) mod sb)).
  { rewrite N.mod_eq by lia. apply N.divide_sub_r.
    - exists (i * w'). lia.
    - exists (s' * (i * w / sb)). lia. }
  destruct Gr as [r' Er].
  pose proof (N.mod_lt (i * w) sb ltac:(lia)) as Hlt.
  rewrite Er in *. rewrite Es in Hlt.
  assert (r' < s') by (apply (N.mul_lt_mono_pos_r g); lia).
  rewrite Es. nia.
Qed.

(* elements i < j occupy disjoint bit ranges *)
Lemma elem_ranges_disjoint w i j : i < j -> i * w + w <= j * w.
Proof. intro H. replace (i * w + w) with ((i + 1) * w) by lia. apply N.mul_le_mono_r. lia. Qed.
