(* Properties_C16_pfor_src.v — property C16, PFOR part: the exception marker,
   stated about src_varintPFORCalculateMarker, the Gallina rendering that
   gen/c2coq.py regenerates from the CURRENT src/varintPFOR.c on every run
   (coq/gen/Src_leaf_pfor.v; meaning of the c_* operations: CSem.v).  C integer
   values are Z; `COk v` = the C abstract machine yields v.  pfor_encode_meta /
   pfor_slot are the hand model of the encoder (PFOR.v, PFORSpec.v).  Nothing but statements
   closed by `exact`. *)
Require Import VV.Base VV.CSem VV.PFOR VV.PFORSpec VV.LeafSrcPFOR.
Require Import VVgen.Src_leaf_pfor.
Local Open Scope Z_scope.

(* the regenerated function computes the hand model for every varintWidth (uint32_t) value *)
Theorem C16_src_varintPFORCalculateMarker_is_model : forall w, 0 <= w < 4294967296 ->
  src_varintPFORCalculateMarker w = COk (Z.of_N (pfor_marker (Z.to_N w))).
Proof. exact src_varintPFORCalculateMarker_is_model. Qed.
Print Assumptions C16_src_varintPFORCalculateMarker_is_model.

(* C16 pfor_marker_slot_iff with the marker taken from the regenerated source: the marker in
   the encoder's metadata is varintPFORCalculateMarker(width), the all-ones value of the slot
   width, and a slot holds it exactly for the listed outliers *)
Theorem C16_src_pfor_marker_slot_iff : forall xs thr v,
  (1 <= length xs)%nat -> Forall (fun x => (x < 18446744073709551616)%N) xs -> In v xs ->
  let m := pfor_encode_meta xs thr in
  exists mk, src_varintPFORCalculateMarker (Z.of_N (pm_width m)) = COk (Z.of_N mk) /\
    mk = pm_marker m /\ (1 <= pm_width m <= 8)%N /\ mk = (256 ^ pm_width m - 1)%N /\
    (pfor_slot m v = le_bytes (N.to_nat (pm_width m)) mk
     <-> pfor_is_exc (pm_min m) (pm_tv m) mk v = true).
Proof. exact src_pfor_marker_slot_iff. Qed.
Print Assumptions C16_src_pfor_marker_slot_iff.

(* non-vacuity: the regenerated function on every width class *)
Example C16_src_pfor_example :
  src_varintPFORCalculateMarker 1 = COk 255 /\ src_varintPFORCalculateMarker 2 = COk 65535 /\
  src_varintPFORCalculateMarker 7 = COk 72057594037927935 /\
  src_varintPFORCalculateMarker 8 = COk 18446744073709551615 /\
  src_varintPFORCalculateMarker 0 = COk 0 /\
  src_varintPFORCalculateMarker 4294967295 = COk 18446744073709551615.
Proof. vm_compute. repeat split; reflexivity. Qed.
