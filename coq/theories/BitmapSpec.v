(* BitmapSpec.v — the specification side of C08: histories of operations over a
   pool of bitmaps, what a caller observes after every step, and the same history
   over mathematical sets of 16-bit integers (characteristic functions).  The
   set side mentions no container, no capacity and no cardinality counter. *)
Require Import VV.Base VV.Bitmap.
Local Open Scope N_scope.

(* lo, lo+1, ..., lo+n-1 *)
Fixpoint nseq (lo : N) (n : nat) : list N :=
  match n with O => [] | S k => lo :: nseq (lo + 1) k end.

(* operations; i, j, k index the pool *)
Inductive bm_op :=
| OAdd (i : nat) (v : N)
| ORemove (i : nat) (v : N)
| OContains (i : nat) (v : N)
| OAddRange (i : nat) (lo hi : N)
| ORemoveRange (i : nat) (lo hi : N)
| OClear (i : nat)
| OOptimize (i : nat)
| OAddMany (i : nat) (vs : list N)
| OClone (i j : nat)
| OAnd (i j k : nat)
| OOr (i j k : nat)
| OXor (i j k : nat)
| OAndNot (i j k : nat)
| OSerDes (i : nat).

(* arguments are uint16_t *)
Definition op_wf (o : bm_op) : Prop :=
  match o with
  | OAdd _ v | ORemove _ v | OContains _ v => v < 65536
  | OAddRange _ lo hi | ORemoveRange _ lo hi => lo < 65536 /\ hi < 65536
  | OAddMany _ vs => forall v, In v vs -> v < 65536
  | _ => True
  end.

Fixpoint upd {A} (l : list A) (i : nat) (x : A) : list A :=
  match l, i with
  | [], _ => []
  | _ :: t, O => x :: t
  | y :: t, S i' => y :: upd t i' x
  end.

(* ---- the implementation side ---- *)
Definition getb (pool : list bm_state) (i : nat) : bm_state := nth i pool bm_create.

Definition bm_step (pool : list bm_state) (o : bm_op) : list bm_state * option bool :=
  match o with
  | OAdd i v => let r := bm_add (getb pool i) v in (upd pool i (fst r), Some (snd r))
  | ORemove i v => let r := bm_remove (getb pool i) v in (upd pool i (fst r), Some (snd r))
  | OContains i v => (pool, Some (bm_contains (getb pool i) v))
  | OAddRange i lo hi => (upd pool i (bm_add_range (getb pool i) lo hi), None)
  | ORemoveRange i lo hi => (upd pool i (bm_remove_range (getb pool i) lo hi), None)
  | OClear i => (upd pool i (bm_clear (getb pool i)), None)
  | OOptimize i => (upd pool i (bm_optimize (getb pool i)), None)
  | OAddMany i vs => (upd pool i (bm_add_many (getb pool i) vs), None)
  | OClone i j => (upd pool i (bm_clone (getb pool j)), None)
  | OAnd i j k => (upd pool i (bm_and (getb pool j) (getb pool k)), None)
  | OOr i j k => (upd pool i (bm_or (getb pool j) (getb pool k)), None)
  | OXor i j k => (upd pool i (bm_xor (getb pool j) (getb pool k)), None)
  | OAndNot i j k => (upd pool i (bm_andnot (getb pool j) (getb pool k)), None)
  | OSerDes i =>
      let bytes := bm_encode (getb pool i) in
      match fst (bm_decode bytes (bm_lenN bytes)) with
      | Some s' => (upd pool i s', Some true)
      | None => (pool, Some false)
      end
  end.

(* what a caller can see of one bitmap: Cardinality, IsEmpty, ToArray *)
Definition bm_view (s : bm_state) : N * bool * list N := (bm_cardinality s, bm_is_empty s, bm_to_array s).

(* observations of a run: after every step the returned flag and the view of
   every bitmap of the pool *)
Fixpoint bm_run (pool : list bm_state) (ops : list bm_op) : list (option bool * list (N * bool * list N)) :=
  match ops with
  | [] => []
  | o :: t => let r := bm_step pool o in (snd r, map bm_view (fst r)) :: bm_run (fst r) t
  end.

(* ---- the specification side: sets of 16-bit integers ---- *)
Definition set16 := N -> bool.
Definition universe : list N := nseq 0 (N.to_nat 65536).
Definition s_elems (P : set16) : list N := filter P universe.
Definition s_view (P : set16) : N * bool * list N :=
  (bm_lenN (s_elems P), bm_lenN (s_elems P) =? 0, s_elems P).
Definition gets (pool : list set16) (i : nat) : set16 := nth i pool (fun _ => false).

Definition s_step (pool : list set16) (o : bm_op) : list set16 * option bool :=
  match o with
  | OAdd i v => let P := gets pool i in (upd pool i (fun x => (x =? v) || P x), Some (negb (P v)))
  | ORemove i v => let P := gets pool i in (upd pool i (fun x => P x && negb (x =? v)), Some (P v))
  | OContains i v => (pool, Some (gets pool i v))
  | OAddRange i lo hi => let P := gets pool i in (upd pool i (fun x => ((lo <=? x) && (x <? hi)) || P x), None)
  | ORemoveRange i lo hi => let P := gets pool i in (upd pool i (fun x => P x && negb ((lo <=? x) && (x <? hi))), None)
  | OClear i => (upd pool i (fun _ => false), None)
  | OOptimize i => (pool, None)
  | OAddMany i vs => let P := gets pool i in (upd pool i (fun x => existsb (N.eqb x) vs || P x), None)
  | OClone i j => (upd pool i (gets pool j), None)
  | OAnd i j k => let P := gets pool j in let Q := gets pool k in (upd pool i (fun x => P x && Q x), None)
  | OOr i j k => let P := gets pool j in let Q := gets pool k in (upd pool i (fun x => P x || Q x), None)
  | OXor i j k => let P := gets pool j in let Q := gets pool k in (upd pool i (fun x => xorb (P x) (Q x)), None)
  | OAndNot i j k => let P := gets pool j in let Q := gets pool k in (upd pool i (fun x => P x && negb (Q x)), None)
  | OSerDes i => (pool, Some true)
  end.

Fixpoint s_run (pool : list set16) (ops : list bm_op) : list (option bool * list (N * bool * list N)) :=
  match ops with
  | [] => []
  | o :: t => let r := s_step pool o in (snd r, map s_view (fst r)) :: s_run (fst r) t
  end.

