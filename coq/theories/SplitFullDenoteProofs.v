(* SplitFullDenoteProofs.v — the table decoder of the documented format:
   it inverts the encoders, and no byte string of the format is shorter than
   the encoder's output except in the documented never-shrink window. *)
Require Import VV.Base VV.BaseProofs VV.SplitFull VV.SplitFullSpec VV.SplitFullLemmas
               VV.SplitFullProofs VV.SplitFullNZProofs VV.SplitFullSpecProofs.
From Coq Require Import Lia ZifyBool ZifyN ZifyNat Arith.
Local Open Scope N_scope.
Ltac Zify.zify_post_hook ::= Z.div_mod_to_equations.

(* ---- of_le / of_be bounds ---- *)
Lemma sfd_of_le_lt l : bytes_ok l -> of_le l < 256 ^ N.of_nat (length l).
Proof.
  unfold bytes_ok. induction 1 as [|a l Ha Hl IH].
  - cbn. lia.
  - cbn [of_le length]. rewrite Nat2N.inj_succ, N.pow_succ_r'. lia.
Qed.

Lemma sfd_of_le_app a b : of_le (a ++ b) = of_le a + 256 ^ N.of_nat (length a) * of_le b.
Proof.
  induction a as [|x a IH].
  - cbn [app of_le length N.of_nat]. change (256 ^ 0) with 1. lia.
  - cbn [app of_le length]. rewrite IH, Nat2N.inj_succ, N.pow_succ_r'. lia.
Qed.

Lemma sfd_of_be_cons a l : of_be (a :: l) = a * 256 ^ N.of_nat (length l) + of_be l.
Proof.
  unfold of_be. cbn [rev]. rewrite sfd_of_le_app, rev_length. cbn [of_le]. lia.
Qed.

Lemma sfd_of_be_lt l : bytes_ok l -> of_be l < 256 ^ N.of_nat (length l).
Proof.
  intro H. unfold of_be. rewrite <- rev_length. apply sfd_of_le_lt. apply bytes_ok_rev. exact H.
Qed.

(* ---- evaluating sftbl_denote on a literal table ---- *)
Ltac den_decide E :=
  unfold sflv_matches, sflv_len in E; cbn [sflv_payload sflv_pbits sflv_prefix length nth] in E;
  rewrite ?length_le_bytes in E;
  change (2 =? 8) with false in E; change (8 =? 8) with true in E; cbv iota in E;
  try (exfalso; lia).
Ltac den_step :=
  match goal with
  | |- context [sftbl_denote (?l :: ?t) ?b] =>
      change (sftbl_denote (l :: t) b)
        with (if sflv_matches l b then Some (sflv_decode l b) else sftbl_denote t b);
      let E := fresh "E" in destruct (sflv_matches l b) eqn:E; cbv iota; den_decide E
  end.
Ltac den_go := repeat den_step.
Ltac den_ext k :=
  unfold sflv_decode; cbn [sflv_pbits sflv_base tl]; change (8 =? 8) with true; cbv iota;
  rewrite of_le_le_bytes; change (256 ^ N.of_nat k) with (256 ^ N.of_nat k);
  sfl_norm_pow; f_equal; lia.

Theorem sf_denote_put x : x < 18446744073709551616 -> sf_denote (sf_put x) = Some x.
Proof.
  intro Hx. rewrite sf_put_norm by exact Hx.
  unfold sf_denote, sf_norm, sf_table.
  destruct (x <=? 63) eqn:E1.
  { den_go. unfold sflv_decode, of_be. cbn [sflv_pbits sflv_base sflv_prefix rev app of_le].
    change (2 =? 8) with false. cbv iota. f_equal. lia. }
  destruct (x <=? 16446) eqn:E2.
  { den_go. unfold sflv_decode, of_be, sflv_bits. cbn [sflv_pbits sflv_base sflv_prefix sflv_payload rev app of_le].
    change (2 =? 8) with false. cbv iota. change (2 ^ (8 * N.of_nat 1 + (8 - 2))) with 16384.
    f_equal. lia. }
  destruct (x <=? 4210749) eqn:E3.
  { den_go. unfold sflv_decode, of_be, sflv_bits. cbn [sflv_pbits sflv_base sflv_prefix sflv_payload rev app of_le].
    change (2 =? 8) with false. cbv iota. change (2 ^ (8 * N.of_nat 2 + (8 - 2))) with 4194304.
    f_equal. lia. }
  destruct (sfl_kw_cases (x - 4210749) ltac:(lia)) as
    [(K & R)|[(K & R)|[(K & R)|[(K & R)|[(K & R)|[(K & R)|(K & R)]]]]]]; rewrite K; den_go.
  - den_ext 2%nat.
  - den_ext 3%nat.
  - den_ext 4%nat.
  - den_ext 5%nat.
  - den_ext 6%nat.
  - den_ext 7%nat.
  - den_ext 8%nat.
Qed.

(* ---------------- shortest encoding ---------------- *)

Lemma sftbl_denote_inv t b x : sftbl_denote t b = Some x ->
  exists l, In l t /\ sflv_matches l b = true /\ x = sflv_decode l b.
Proof.
  induction t as [|l t IH]; cbn [sftbl_denote]; [discriminate|].
  destruct (sflv_matches l b) eqn:E.
  - intro H. injection H as <-. exists l. split; [left; reflexivity|]. split; [exact E|reflexivity].
  - intro H. destruct (IH H) as (l' & I & M & D). exists l'. split; [right; exact I|].
    split; assumption.
Qed.

(* what a matching external row says about the bytes *)
Lemma sfd_ext_bound b p base prefix used x :
  bytes_ok b -> sflv_matches (SfLevel prefix 8 p base used) b = true ->
  x = sflv_decode (SfLevel prefix 8 p base used) b ->
  length b = S p /\ nth 0 b 0 = prefix /\ x = base + of_le (tl b) /\
  of_le (tl b) < 256 ^ N.of_nat p.
Proof.
  intros Hb M D. unfold sflv_matches, sflv_len in M. cbn [sflv_payload sflv_pbits sflv_prefix] in M.
  change (8 =? 8) with true in M. cbv iota in M.
  apply andb_prop in M. destruct M as (M1 & M2).
  apply Nat.eqb_eq in M1. apply N.eqb_eq in M2.
  unfold sflv_decode in D. cbn [sflv_pbits sflv_base] in D. change (8 =? 8) with true in D. cbv iota in D.
  destruct b as [|a b']; [discriminate|]. cbn [tl length] in *.
  assert (Hb' : bytes_ok b') by (unfold bytes_ok in *; inversion Hb; assumption).
  pose proof (sfd_of_le_lt b' Hb') as L. injection M1 as M1. rewrite M1 in L.
  repeat split; try assumption. rewrite M1. reflexivity.
Qed.

Lemma sfd_pow_bits p : 2 ^ (8 * N.of_nat p + (8 - 2)) = 64 * 256 ^ N.of_nat p.
Proof.
  change (8 - 2) with 6. rewrite N.pow_add_r, N.pow_mul_r. change (2 ^ 8) with 256.
  change (2 ^ 6) with 64. lia.
Qed.

(* what a matching embedded row says *)
Lemma sfd_emb_bound b p base prefix used x :
  bytes_ok b -> sflv_matches (SfLevel prefix 2 p base used) b = true ->
  x = sflv_decode (SfLevel prefix 2 p base used) b ->
  length b = S p /\ base <= x /\ x < base + 64 * 256 ^ N.of_nat p.
Proof.
  intros Hb M D. unfold sflv_matches, sflv_len in M. cbn [sflv_payload sflv_pbits sflv_prefix] in M.
  change (2 =? 8) with false in M. cbv iota in M.
  apply andb_prop in M. destruct M as (M1 & M2).
  apply Nat.eqb_eq in M1. apply N.eqb_eq in M2.
  unfold sflv_decode, sflv_bits in D. cbn [sflv_pbits sflv_base sflv_prefix sflv_payload] in D.
  change (2 =? 8) with false in D. cbv iota in D. rewrite sfd_pow_bits in D.
  destruct b as [|a b']; [discriminate|]. cbn [nth length] in *.
  assert (Ha : a < 256) by (unfold bytes_ok in Hb; inversion Hb; assumption).
  assert (Hb' : bytes_ok b') by (unfold bytes_ok in *; inversion Hb; assumption).
  pose proof (sfd_of_be_lt b' Hb') as L. injection M1 as M1. rewrite M1 in L.
  rewrite sfd_of_be_cons, M1 in D.
  set (P := 256 ^ N.of_nat p) in *. set (q := of_be b') in *.
  assert (HP : 0 < P) by (subst P; apply N.neq_0_lt_0, N.pow_nonzero; lia).
  split; [rewrite M1; reflexivity|].
  assert (Ea : a = 64 * prefix + a mod 64) by lia.
  set (r := a mod 64) in *. assert (Hr : r < 64) by (subst r; apply N.mod_lt; lia).
  assert (E2 : a * P + q - prefix * (64 * P) = r * P + q) by (rewrite Ea; nia).
  rewrite E2 in D. split; [lia|]. nia.
Qed.

(* a byte string of the documented layout that is shorter than the encoder's
   output for the same value is a 2-byte string of the NOT USED row *)
Theorem sf_shorter_only_unused_row b x :
  bytes_ok b -> sf_denote b = Some x -> x < 18446744073709551616 ->
  N.of_nat (length b) < sf_length x ->
  4210749 <= x <= 4211004 /\ b = [193; x - 4210749].
Proof.
  intros Hb D Hx Hs. unfold sf_denote in D.
  destruct (sftbl_denote_inv _ _ _ D) as (l & I & M & Dl).
  destruct sf_max_values as (M1 & M2 & M3 & M4 & M5 & M6 & M7 & M8 & M9 & _).
  unfold sf_table in I. cbn [In] in I.
  destruct I as [I|[I|[I|[I|[I|[I|[I|[I|[I|[I|[I|[]]]]]]]]]]]]; subst l.
  - destruct (sfd_emb_bound _ _ _ _ _ _ Hb M Dl) as (L & B1 & B2). exfalso.
    change (256 ^ N.of_nat 0) with 1 in B2.
    pose proof (proj2 (sf_length_le x 1 Hx ltac:(lia))) as H. rewrite M1 in H. lia.
  - destruct (sfd_emb_bound _ _ _ _ _ _ Hb M Dl) as (L & B1 & B2). exfalso.
    change (256 ^ N.of_nat 1) with 256 in B2.
    pose proof (proj2 (sf_length_le x 2 Hx ltac:(lia))) as H. rewrite M2 in H. lia.
  - destruct (sfd_emb_bound _ _ _ _ _ _ Hb M Dl) as (L & B1 & B2). exfalso.
    change (256 ^ N.of_nat 2) with 65536 in B2.
    pose proof (proj2 (sf_length_le x 3 Hx ltac:(lia))) as H. rewrite M3 in H. lia.
  - (* the unused row *)
    destruct (sfd_ext_bound _ _ _ _ _ _ Hb M Dl) as (L & T & V & B).
    change (256 ^ N.of_nat 1) with 256 in B. split; [lia|].
    destruct b as [|a [|c [|d b']]]; try discriminate. cbn [nth tl of_le] in *.
    subst a. f_equal. f_equal. lia.
  - destruct (sfd_ext_bound _ _ _ _ _ _ Hb M Dl) as (L & T & V & B). exfalso.
    change (256 ^ N.of_nat 2) with 65536 in B.
    pose proof (proj2 (sf_length_le x 3 Hx ltac:(lia))) as H. rewrite M3 in H. lia.
  - destruct (sfd_ext_bound _ _ _ _ _ _ Hb M Dl) as (L & T & V & B). exfalso.
    change (256 ^ N.of_nat 3) with 16777216 in B.
    pose proof (proj2 (sf_length_le x 4 Hx ltac:(lia))) as H. rewrite M4 in H. lia.
  - destruct (sfd_ext_bound _ _ _ _ _ _ Hb M Dl) as (L & T & V & B). exfalso.
    change (256 ^ N.of_nat 4) with 4294967296 in B.
    pose proof (proj2 (sf_length_le x 5 Hx ltac:(lia))) as H. rewrite M5 in H. lia.
  - destruct (sfd_ext_bound _ _ _ _ _ _ Hb M Dl) as (L & T & V & B). exfalso.
    change (256 ^ N.of_nat 5) with 1099511627776 in B.
    pose proof (proj2 (sf_length_le x 6 Hx ltac:(lia))) as H. rewrite M6 in H. lia.
  - destruct (sfd_ext_bound _ _ _ _ _ _ Hb M Dl) as (L & T & V & B). exfalso.
    change (256 ^ N.of_nat 6) with 281474976710656 in B.
    pose proof (proj2 (sf_length_le x 7 Hx ltac:(lia))) as H. rewrite M7 in H. lia.
  - destruct (sfd_ext_bound _ _ _ _ _ _ Hb M Dl) as (L & T & V & B). exfalso.
    change (256 ^ N.of_nat 7) with 72057594037927936 in B.
    pose proof (proj2 (sf_length_le x 8 Hx ltac:(lia))) as H. rewrite M8 in H. lia.
  - destruct (sfd_ext_bound _ _ _ _ _ _ Hb M Dl) as (L & T & V & B). exfalso.
    pose proof (proj2 (sf_length_le x 9 Hx ltac:(lia))) as H. rewrite M9 in H. lia.
Qed.

(* outside the window the encoder's output is the shortest the layout allows *)
Theorem sf_shortest b x :
  bytes_ok b -> sf_denote b = Some x -> x < 18446744073709551616 ->
  x < 4210749 \/ 4211004 < x ->
  sf_length x <= N.of_nat (length b).
Proof.
  intros Hb D Hx W. destruct (N.le_gt_cases (sf_length x) (N.of_nat (length b))) as [L|G]; [exact L|].
  destruct (sf_shorter_only_unused_row b x Hb D Hx G) as (R & _). lia.
Qed.

(* the window itself: exactly the 256 values 4210749 .. 4211004 have a
   2-byte string in the layout (the NOT USED row); the encoder stores them in
   3 bytes — for 4210750 .. 4211004 as |11000010| with a zero high byte *)
Theorem sf_never_shrink_window x : 4210749 <= x <= 4211004 ->
  sf_denote [193; x - 4210749] = Some x /\ sf_length x = 3.
Proof.
  intro R. split.
  - unfold sf_denote, sf_table. den_go.
    unfold sflv_decode. cbn [sflv_pbits sflv_base tl of_le]. change (8 =? 8) with true. cbv iota.
    f_equal. lia.
  - assert (Hx : x < 18446744073709551616) by lia.
    destruct sf_max_values as (M1 & M2 & M3 & _).
    pose proof (sf_length_le x 2 Hx ltac:(lia)) as H2. rewrite M2 in H2.
    pose proof (sf_length_le x 3 Hx ltac:(lia)) as H3. rewrite M3 in H3.
    pose proof (sf_length_range x Hx). lia.
Qed.

Theorem sf_never_shrink_bytes x : 4210750 <= x <= 4211004 ->
  sf_put x = [194; x - 4210749; 0].
Proof.
  intro R. rewrite sf_put_norm by lia. unfold sf_norm.
  destruct (x <=? 63) eqn:E1; [lia|]. destruct (x <=? 16446) eqn:E2; [lia|].
  destruct (x <=? 4210749) eqn:E3; [lia|].
  destruct (sfl_kw_cases (x - 4210749) ltac:(lia)) as
    [(K & Q)|[(K & Q)|[(K & Q)|[(K & Q)|[(K & Q)|[(K & Q)|(K & Q)]]]]]]; try lia.
  rewrite K, sfl_le_bytes_2. f_equal. f_equal; [lia|]. f_equal. lia.
Qed.

(* ---------------- SplitFullNoZero ---------------- *)

(* the NoZero layout is SplitFull's with every base one higher *)
Lemma sfnz_denote_sf b :
  sfnz_denote b = match sf_denote b with Some y => Some (y + 1) | None => None end.
Proof.
  unfold sfnz_denote, sf_denote, sfnz_table, sf_table, sftbl_denote, sflv_matches, sflv_len.
  cbn [sflv_payload sflv_pbits sflv_prefix].
  repeat match goal with
  | |- (if ?c then _ else _) = _ =>
      destruct c; cbv iota; [unfold sflv_decode, sflv_bits; cbn [sflv_pbits sflv_base sflv_prefix sflv_payload]; f_equal; lia|]
  end.
  reflexivity.
Qed.

Theorem sfnz_denote_put x : 1 <= x -> x < 18446744073709551616 ->
  sfnz_denote (sfnz_put x) = Some x.
Proof.
  intros H1 Hx. rewrite sfnz_put_sf, sfnz_denote_sf by assumption.
  rewrite sf_denote_put by lia. f_equal. lia.
Qed.

Theorem sfnz_shorter_only_unused_row b x :
  bytes_ok b -> sfnz_denote b = Some x -> x < 18446744073709551616 ->
  N.of_nat (length b) < sfnz_length x ->
  4210750 <= x <= 4211005 /\ b = [193; x - 4210750].
Proof.
  intros Hb D Hx Hs. rewrite sfnz_denote_sf in D.
  destruct (sf_denote b) as [y|] eqn:Dy; [|discriminate]. injection D as D.
  rewrite sfnz_length_sf in Hs by lia. replace (x - 1) with y in Hs by lia.
  destruct (sf_shorter_only_unused_row b y Hb Dy ltac:(lia) Hs) as (R & B).
  split; [lia|]. rewrite B. f_equal. f_equal. lia.
Qed.

Theorem sfnz_shortest b x :
  bytes_ok b -> sfnz_denote b = Some x -> x < 18446744073709551616 ->
  x < 4210750 \/ 4211005 < x ->
  sfnz_length x <= N.of_nat (length b).
Proof.
  intros Hb D Hx W. destruct (N.le_gt_cases (sfnz_length x) (N.of_nat (length b))) as [L|G]; [exact L|].
  destruct (sfnz_shorter_only_unused_row b x Hb D Hx G) as (R & _). lia.
Qed.

Theorem sfnz_never_shrink_window x : 4210750 <= x <= 4211005 ->
  sfnz_denote [193; x - 4210750] = Some x /\ sfnz_length x = 3.
Proof.
  intro R. rewrite sfnz_denote_sf, sfnz_length_sf by lia.
  destruct (sf_never_shrink_window (x - 1) ltac:(lia)) as (D & L).
  replace (x - 4210750) with (x - 1 - 4210749) by lia. rewrite D, L.
  split; [f_equal; lia|reflexivity].
Qed.

Theorem sfnz_never_shrink_bytes x : 4210751 <= x <= 4211005 ->
  sfnz_put x = [194; x - 4210750; 0].
Proof.
  intro R. rewrite sfnz_put_sf by lia. rewrite sf_never_shrink_bytes by lia.
  f_equal. f_equal. lia.
Qed.
