(* Properties_C14_rledict.v — property C14 (length-taking decoders stay inside
   their declared input) for varintRLEGetRunCount, varintDictDecode and
   varintDictDecodeInto, after fixes F15 and F12.  For ARBITRARY byte lists z
   and declared length n:
   * termination: the fuel (= n, the declared length) is never exhausted;
   * reads nothing at or beyond n: the result is the same for any z' that
     agrees with z on the first n bytes (the model reads z with default-0
     accessors and is able to over-read; the C side checks the same with a
     guard page);
   * allocation requests are bounded by a function of n;
   * short result: counts reported cannot exceed what n bytes can hold. *)
Require Import VV.Base VV.Tagged VV.RLE VV.RLESpec VV.RLELemmas VV.RLEProofs VV.Dict VV.DictProofs
  VV.DictSafety VV.RLEDictTheorems.
Local Open Scope N_scope.

Theorem C14_rle_get_run_count_safe : forall z n,
  (exists k, rle_get_run_count z n = Some k /\ 2 * k <= n) /\
  (forall z', firstn (N.to_nat n) z = firstn (N.to_nat n) z' ->
              rle_get_run_count z n = rle_get_run_count z' n).
Proof. exact rle_get_run_count_safe. Qed.
Print Assumptions C14_rle_get_run_count_safe.

Theorem C14_dict_decode_safe : forall z n,
  dict_decode z n <> DictFuel /\
  Forall (fun a => a <= 8388608 + 8 * n) (dict_dec_allocs (dict_decode z n)) /\
  N.of_nat (length (dict_dec_stores (dict_decode z n))) <= n /\
  (forall z', firstn (N.to_nat n) z = firstn (N.to_nat n) z' -> dict_decode z n = dict_decode z' n).
Proof. exact dict_decode_safe. Qed.
Print Assumptions C14_dict_decode_safe.

Theorem C14_dict_decode_into_safe : forall z n cap,
  dict_decode_into z n cap <> DictFuel /\
  Forall (fun a => a <= 8388608) (dict_dec_allocs (dict_decode_into z n cap)) /\
  N.of_nat (length (dict_dec_stores (dict_decode_into z n cap))) <= cap /\
  (forall z', firstn (N.to_nat n) z = firstn (N.to_nat n) z' ->
              dict_decode_into z n cap = dict_decode_into z' n cap).
Proof. exact dict_decode_into_safe. Qed.
Print Assumptions C14_dict_decode_into_safe.

(* the bounded tagged reader used by all three only looks below its limit *)
Theorem C14_tagged_get_local : forall z z' n,
  (forall i, (Z.of_nat i < n)%Z -> byte_at z i = byte_at z' i) -> tagged_get z n = tagged_get z' n.
Proof. exact tagged_get_ext. Qed.
Print Assumptions C14_tagged_get_local.

(* non-vacuity: the F12 / F15 witnesses and the wrapping count *)
Example C14_example :
  dict_decode [255] 1 = DictNull [] /\ dict_decode_into [255] 1 4 = DictNull [] /\
  rle_get_run_count [1; 255] 2 = Some 0 /\
  rle_get_run_count [1; 255; 255; 255; 255; 255; 255; 255; 255; 255; 7] 10 = Some 1 /\
  dict_decode ([1; 7] ++ [255; 128; 0; 0; 0; 0; 0; 0; 0] ++ [0; 0]) 13 = DictNull [8].
Proof. vm_compute. repeat split; reflexivity. Qed.
