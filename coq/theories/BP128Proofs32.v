(* BP128Proofs32.v — varintBP128EncodeBlock32 / DecodeBlock32, Encode32 /
   Decode32: round trip, capacity (whole blocks), size bound, metadata. *)
Require Import VV.Base VV.BaseProofs VV.Tagged VV.BP128 VV.BP128Bits VV.BP128Lemmas.
From Coq Require Import Lia ZifyBool ZifyN ZifyNat.
Local Open Scope N_scope.
Ltac Zify.zify_post_hook ::= Z.div_mod_to_equations.

Lemma lt32_lt64 vs : Forall (fun v => v < 2 ^ 32) vs -> Forall (fun v => v < 2 ^ 64) vs.
Proof.
  apply Forall_impl. intros a H. change (2 ^ 32) with 4294967296 in H.
  change (2 ^ 64) with 18446744073709551616. lia.
Qed.

(* ---------- single blocks ---------- *)

Lemma blk_full bvs : length bvs = 128%nat ->
  blk bvs = u8 (bits_needed (max_val bvs)) :: blk_payload bvs.
Proof. intro L. unfold blk, block_header. rewrite L. reflexivity. Qed.

Lemma encode_block32_blk bvs : length bvs = 128%nat -> encode_block32 bvs = blk bvs.
Proof.
  intro L. rewrite blk_full by exact L. unfold encode_block32, blk_payload. rewrite max_bit_width_eq. cbv zeta.
  destruct (bits_needed (max_val bvs) =? 0) eqn:E.
  - replace (0 <? bits_needed (max_val bvs)) with false by lia. reflexivity.
  - replace (0 <? bits_needed (max_val bvs)) with true by lia. reflexivity.
Qed.

Lemma decode_block32_blk bvs rest : length bvs = 128%nat -> Forall (fun v => v < 2 ^ 32) bvs ->
  exists c, decode_block32 (blk bvs ++ rest) = Some (bvs, c) /\
            skipn (N.to_nat c) (blk bvs ++ rest) = rest /\ c = N.of_nat (length (blk bvs)).
Proof.
  intros L Hv. pose proof (width_le 32 bvs Hv) as W.
  rewrite blk_full by exact L. set (bw := bits_needed (max_val bvs)) in *.
  unfold decode_block32. cbn [app byte_at nth]. unfold u8. rewrite N.mod_small by lia. cbv zeta.
  destruct (bw =? 0) eqn:E.
  - exists 1. unfold blk_payload. fold bw. replace (0 <? bw) with false by lia.
    repeat split. f_equal. f_equal. rewrite (width0_zeros bvs) by (fold bw; lia). rewrite L. reflexivity.
  - replace (32 <? bw) with false by lia.
    exists (1 + nbytes 128 bw). cbn [skipn].
    pose proof (payload_decode bvs 128 rest ltac:(lia)) as P. fold bw in P. rewrite E in P.
    change (N.to_nat 128) with 128%nat in P. rewrite <- L, firstn_all in P at 1.
    pose proof (payload_skip bvs rest) as SK. fold bw in SK. rewrite L in SK. change (N.of_nat 128) with 128 in SK.
    pose proof (length_blk_payload bvs) as LP. fold bw in LP. rewrite L in LP. change (N.of_nat 128) with 128 in LP.
    repeat split.
    + rewrite P. reflexivity.
    + replace (N.to_nat (1 + nbytes 128 bw)) with (S (N.to_nat (nbytes 128 bw))) by lia. cbn [skipn]. exact SK.
    + cbn [length]. lia.
Qed.

(* C02 at block level *)
Theorem block32_roundtrip vs tl : length vs = 128%nat -> Forall (fun v => v < 2 ^ 32) vs ->
  decode_block32 (encode_block32 vs ++ tl) = Some (vs, N.of_nat (length (encode_block32 vs))).
Proof.
  intros L Hv. rewrite encode_block32_blk by exact L.
  destruct (decode_block32_blk vs tl L Hv) as (c & A & _ & C). rewrite A, C. reflexivity.
Qed.

Theorem delta_block32_roundtrip vs prev tl : length vs = 128%nat ->
  Forall (fun v => v < 2 ^ 32) vs -> prev < 2 ^ 32 ->
  delta_decode_block32 (delta_encode_block32 vs prev ++ tl) prev =
    Some (vs, N.of_nat (length (delta_encode_block32 vs prev))).
Proof.
  intros L Hv Hp. unfold delta_decode_block32, delta_encode_block32.
  rewrite block32_roundtrip; [|rewrite length_deltas32; exact L|apply deltas32_lt].
  rewrite psum32_deltas32; [reflexivity|exact Hp|exact Hv].
Qed.

(* C03 at block level: at most VARINT_BP128_MAX_BLOCK_BYTES (in fact 1 + 512) *)
Theorem encode_block32_bound vs : length vs = 128%nat -> Forall (fun v => v < 2 ^ 32) vs ->
  N.of_nat (length (encode_block32 vs)) <= 513.
Proof.
  intros L Hv. rewrite encode_block32_blk by exact L. rewrite blk_full by exact L.
  cbn [length]. rewrite Nat2N.inj_succ, length_blk_payload, L.
  pose proof (width_le 32 vs Hv). unfold nbytes. change (N.of_nat 128) with 128. lia.
Qed.

(* ---------- the encoder's bytes ---------- *)

Lemma blocks_cons f vs : vs <> [] -> blocks (S f) vs = blk (firstn 128 vs) ++ blocks f (skipn 128 vs).
Proof. intro H. cbn [blocks]. destruct vs; [congruence|reflexivity]. Qed.

Lemma skipn_skipn' {A} a b (l : list A) : skipn a (skipn b l) = skipn (b + a) l.
Proof.
  revert l. induction b as [|b IH]; intro l; [reflexivity|].
  destruct l as [|x t]; [cbn [skipn Nat.add]; apply skipn_nil|]. cbn [skipn Nat.add]. apply IH.
Qed.

Lemma enc32_full_blocks k : forall vs g, (128 * k <= length vs)%nat ->
  blocks (k + g) vs = enc32_full k vs (blocks g (skipn (128 * k) vs)).
Proof.
  induction k as [|k IH]; intros vs g H.
  - reflexivity.
  - assert (Hne : vs <> []) by (intro; subst vs; cbn [length] in H; lia).
    change (S k + g)%nat with (S (k + g)). rewrite blocks_cons by exact Hne.
    cbn [enc32_full]. rewrite encode_block32_blk by (rewrite firstn_length; lia).
    rewrite (IH (skipn 128 vs) g) by (rewrite skipn_length; lia).
    rewrite skipn_skipn'.
    replace (128 * S k)%nat with (128 + 128 * k)%nat by lia. reflexivity.
Qed.

Lemma encode32_blocks vs : encode32 vs = blocks (blocks_fuel vs) vs.
Proof.
  unfold encode32. cbv zeta. destruct (N.of_nat (length vs) =? 0) eqn:E0.
  - destruct vs; [reflexivity|cbn [length] in E0; lia].
  - set (n := N.of_nat (length vs)) in *.
    unfold blocks_fuel. fold n. replace (S (N.to_nat (n / 128))) with (N.to_nat (n / 128) + 1)%nat by lia.
    rewrite enc32_full_blocks by lia. f_equal.
    replace (N.to_nat (n / 128 * 128)) with (128 * N.to_nat (n / 128))%nat by lia.
    set (tailvs := skipn (128 * N.to_nat (n / 128)) vs).
    assert (Lt : N.of_nat (length tailvs) = n mod 128) by (subst tailvs; rewrite skipn_length; lia).
    destruct (0 <? n mod 128) eqn:E.
    + rewrite blocks_short; [| intro Z; rewrite Z in Lt; cbn [length] in Lt; lia | lia].
      unfold partial_block, blk, block_header, blk_payload. rewrite max_bit_width_eq, Lt.
      replace (n mod 128 <? 128) with true by lia. reflexivity.
    + destruct tailvs; [reflexivity|cbn [length] in Lt; lia].
Qed.

(* ---------- Decode32 on blocks ---------- *)

Lemma dec32_step f z room : dec32_loop (S f) z room =
  if room =? 0 then Some []
  else
    let '(part, bw, bc, z1) := read_header z in
    if part then
      let bc := if room <? bc then u8 room else bc in
      if bw =? 0 then Some (repeat 0 (N.to_nat bc))
      else if 32 <? bw then (if bc =? 0 then Some [] else None)
      else Some (unpack_at bw bc z1)
    else if room <? 128 then Some []
    else
      match decode_block32 z with
      | None => None
      | Some (vals, c) =>
          match dec32_loop f (skipn (N.to_nat c) z) (room - 128) with
          | None => None
          | Some rest => Some (vals ++ rest)
          end
      end.
Proof. reflexivity. Qed.

Lemma dec32_zero f z : dec32_loop (S f) z 0 = Some [].
Proof. reflexivity. Qed.

(* a partial block (always the last one): min room |bvs| values *)
Lemma dec32_partial f bvs rest room :
  (1 <= length bvs < 128)%nat -> Forall (fun v => v < 2 ^ 32) bvs -> 0 < room -> room <= N.of_nat (length bvs) ->
  dec32_loop (S f) (blk bvs ++ rest) room = Some (firstn (N.to_nat room) bvs).
Proof.
  intros Hl Hv H0 Hr. pose proof (width_le 32 bvs Hv) as W.
  rewrite dec32_step. destruct (room =? 0) eqn:E0; [lia|].
  unfold blk. rewrite <- app_assoc. rewrite read_header_block by lia.
  set (b := N.of_nat (length bvs)) in *. set (bw := bits_needed (max_val bvs)) in *.
  replace (b <? 128) with true by lia. cbv beta iota zeta.
  assert (Eb : (if room <? b then u8 room else b) = room).
  { destruct (room <? b) eqn:E; [unfold u8; lia|lia]. }
  rewrite Eb.
  pose proof (payload_decode bvs room rest Hr) as P. fold bw in P.
  destruct (bw =? 0) eqn:E; [f_equal; exact P|].
  replace (32 <? bw) with false by lia. f_equal. exact P.
Qed.

(* a full block, room for it *)
Lemma dec32_full f bvs rest room :
  length bvs = 128%nat -> Forall (fun v => v < 2 ^ 32) bvs -> 128 <= room ->
  dec32_loop (S f) (blk bvs ++ rest) room =
  match dec32_loop f rest (room - 128) with None => None | Some r => Some (bvs ++ r) end.
Proof.
  intros L Hv Hr. pose proof (width_le 32 bvs Hv) as W.
  rewrite dec32_step. destruct (room =? 0) eqn:E0; [lia|].
  destruct (decode_block32_blk bvs rest L Hv) as (c & A & B & _). rewrite A, B.
  unfold blk. rewrite <- app_assoc. rewrite read_header_block by lia.
  rewrite L. change (N.of_nat 128 <? 128) with false. cbv beta iota zeta.
  replace (room <? 128) with false by lia. reflexivity.
Qed.

(* a full block, no room: stop *)
Lemma dec32_full_stop f bvs rest room :
  length bvs = 128%nat -> Forall (fun v => v < 2 ^ 32) bvs -> 0 < room -> room < 128 ->
  dec32_loop (S f) (blk bvs ++ rest) room = Some [].
Proof.
  intros L Hv H0 Hr. pose proof (width_le 32 bvs Hv) as W.
  rewrite dec32_step. destruct (room =? 0) eqn:E0; [lia|].
  unfold blk. rewrite <- app_assoc. rewrite read_header_block by lia.
  rewrite L. change (N.of_nat 128 <? 128) with false. cbv beta iota zeta.
  replace (room <? 128) with true by lia. reflexivity.
Qed.

(* number of values Decode32 returns for capacity cap <= n: whole blocks only,
   unless every full block fits *)
Definition take32 (cap n : N) : N := if cap / 128 <? n / 128 then 128 * (cap / 128) else cap.

Lemma dec32_blocks f : forall vs tl cap fuel,
  (length vs <= 128 * f)%nat -> cap <= N.of_nat (length vs) ->
  Forall (fun v => v < 2 ^ 32) vs ->
  (N.to_nat (cap / 128) + 1 <= fuel)%nat ->
  dec32_loop fuel (blocks f vs ++ tl) cap = Some (firstn (N.to_nat (take32 cap (N.of_nat (length vs)))) vs).
Proof.
  induction f as [|f IH]; intros vs tl cap fuel Hl Hc Hv Hf.
  - destruct vs; [|cbn [length] in Hl; lia]. cbn [length] in Hc.
    replace cap with 0 by lia. destruct fuel; [lia|]. reflexivity.
  - destruct fuel as [|fuel]; [lia|].
    destruct (N.eq_dec cap 0) as [->|Hc0].
    { rewrite dec32_zero. unfold take32. change (0 / 128) with 0.
      destruct (0 <? N.of_nat (length vs) / 128); reflexivity. }
    assert (Hne : vs <> []) by (intro; subst vs; cbn [length] in Hc; lia).
    set (n := N.of_nat (length vs)) in *.
    destruct (Nat.le_gt_cases (length vs) 128) as [Hs|Hg].
    + rewrite blocks_short by assumption.
      destruct (Nat.eq_dec (length vs) 128) as [L|L].
      * (* one full block *)
        destruct (N.eq_dec cap 128) as [->|Hc128].
        -- rewrite dec32_full by (assumption || lia). change (128 - 128) with 0.
           destruct fuel; [cbn in Hf; lia|]. rewrite dec32_zero, app_nil_r.
           unfold take32. replace (128 / 128 <? n / 128) with false by lia.
           change (N.to_nat 128) with 128%nat. rewrite <- L, firstn_all. reflexivity.
        -- rewrite dec32_full_stop by (assumption || lia).
           unfold take32. replace (cap / 128) with 0 by lia. replace (0 <? n / 128) with true by lia.
           reflexivity.
      * rewrite dec32_partial; try assumption; try lia.
        unfold take32. replace (cap / 128 <? n / 128) with false by lia. reflexivity.
    + rewrite blocks_long by assumption. rewrite <- app_assoc.
      assert (L : length (firstn 128 vs) = 128%nat) by (rewrite firstn_length; lia).
      destruct (N.lt_ge_cases cap 128) as [Hlt|Hge].
      * rewrite dec32_full_stop; try assumption; try lia.
        2: apply Forall_firstn'; exact Hv.
        unfold take32. replace (cap / 128) with 0 by lia. replace (0 <? n / 128) with true by lia. reflexivity.
      * rewrite dec32_full; try assumption.
        2: apply Forall_firstn'; exact Hv.
        rewrite (IH (skipn 128 vs) tl (cap - 128) fuel).
        -- f_equal. rewrite skipn_length.
           replace (N.of_nat (length vs - 128)) with (n - 128) by lia.
           set (i' := take32 (cap - 128) (n - 128)). set (i := take32 cap n).
           assert (Ei : i = 128 + i').
           { subst i i'. unfold take32.
             replace ((cap - 128) / 128) with (cap / 128 - 1) by lia.
             replace ((n - 128) / 128) with (n / 128 - 1) by lia.
             assert (1 <= cap / 128) by lia. assert (1 <= n / 128) by lia.
             destruct (cap / 128 <? n / 128) eqn:E1; destruct (cap / 128 - 1 <? n / 128 - 1) eqn:E2; lia. }
           rewrite (firstn_split 128 (N.to_nat i) vs) by lia.
           f_equal. f_equal. lia.
        -- rewrite skipn_length. lia.
        -- rewrite skipn_length. lia.
        -- apply Forall_skipn'. exact Hv.
        -- lia.
Qed.

(* ---------- C02 / C13 ---------- *)

Theorem decode32_cap vs tl cap :
  Forall (fun v => v < 2 ^ 32) vs -> cap <= N.of_nat (length vs) ->
  decode32 (encode32 vs ++ tl) cap =
    Some (firstn (N.to_nat (if cap / 128 <? N.of_nat (length vs) / 128 then 128 * (cap / 128) else cap)) vs).
Proof.
  intros Hv Hc. rewrite encode32_blocks. unfold decode32.
  apply dec32_blocks; try assumption; [apply blocks_fuel_ok|lia].
Qed.

Theorem decode32_roundtrip vs tl : Forall (fun v => v < 2 ^ 32) vs ->
  decode32 (encode32 vs ++ tl) (N.of_nat (length vs)) = Some vs.
Proof.
  intro Hv. rewrite decode32_cap by (assumption || lia).
  replace (N.of_nat (length vs) / 128 <? N.of_nat (length vs) / 128) with false by lia.
  rewrite Nat2N.id, firstn_all. reflexivity.
Qed.

Corollary decode32_reads_inside vs z : Forall (fun v => v < 2 ^ 32) vs ->
  firstn (length (encode32 vs)) z = encode32 vs ->
  decode32 z (N.of_nat (length vs)) = Some vs.
Proof.
  intros Hv Hz. rewrite <- (firstn_skipn (length (encode32 vs)) z), Hz.
  apply decode32_roundtrip; assumption.
Qed.

Lemma decode_block32_length z vals c : decode_block32 z = Some (vals, c) -> length vals = 128%nat.
Proof.
  unfold decode_block32. cbv zeta. destruct (byte_at z 0 =? 0).
  - intro H. injection H as <- _. reflexivity.
  - destruct (32 <? byte_at z 0); [discriminate|]. intro H. injection H as <- _. apply length_unpack_at.
Qed.

Lemma dec32_loop_length fuel : forall z room out,
  dec32_loop fuel z room = Some out -> N.of_nat (length out) <= room.
Proof.
  induction fuel as [|f IH]; intros z room out H; [discriminate|].
  rewrite dec32_step in H. destruct (room =? 0) eqn:E0.
  - injection H as <-. cbn [length]. lia.
  - destruct (read_header z) as [[[part bw] bc] z1]. cbv beta iota zeta in H.
    destruct part.
    + set (bc' := if room <? bc then u8 room else bc) in *.
      assert (Hb : bc' <= room) by (subst bc'; unfold u8; destruct (room <? bc) eqn:E; lia).
      destruct (bw =? 0).
      * injection H as <-. rewrite repeat_length. lia.
      * destruct (32 <? bw).
        -- destruct (bc' =? 0); [|discriminate]. injection H as <-. cbn [length]. lia.
        -- injection H as <-. rewrite length_unpack_at. lia.
    + destruct (room <? 128) eqn:E1.
      * injection H as <-. cbn [length]. lia.
      * destruct (decode_block32 z) as [[vals c]|] eqn:D; [|discriminate].
        destruct (dec32_loop f _ (room - 128)) as [r|] eqn:R; [|discriminate].
        injection H as <-. apply IH in R. apply decode_block32_length in D.
        rewrite app_length, D. lia.
Qed.

Theorem decode32_within_cap z cap out : decode32 z cap = Some out -> N.of_nat (length out) <= cap.
Proof. unfold decode32. apply dec32_loop_length. Qed.

(* ---------- C03 ---------- *)

Theorem encode32_bound vs : Forall (fun v => v < 2 ^ 32) vs ->
  N.of_nat (length (encode32 vs)) <= max_bytes (N.of_nat (length vs)).
Proof.
  intro Hv. rewrite encode32_blocks.
  pose proof (length_blocks_le (blocks_fuel vs) vs (lt32_lt64 vs Hv)) as B.
  unfold blocks_bound in B. unfold max_bytes. cbv zeta. lia.
Qed.

(* ---------- C16 ---------- *)

Lemma encode_block32_hdr bvs : Forall (fun v => v < 2 ^ 32) bvs ->
  byte_at (encode_block32 bvs) 0 = bits_needed (max_val bvs).
Proof.
  intro Hv. pose proof (width_le 32 bvs Hv). unfold encode_block32. rewrite max_bit_width_eq. cbv zeta.
  destruct (bits_needed (max_val bvs) =? 0); cbn [byte_at nth]; unfold u8; lia.
Qed.

Lemma enc32_full_maxbw_eq k : forall vs m, (128 * k <= length vs)%nat -> Forall (fun v => v < 2 ^ 32) vs ->
  enc32_full_maxbw k vs m = N.max m (bits_needed (max_val (firstn (128 * k) vs))).
Proof.
  induction k as [|k IH]; intros vs m Hl Hv.
  - replace (128 * 0)%nat with 0%nat by lia. cbn [enc32_full_maxbw firstn]. rewrite max_val_nil. unfold bits_needed. cbn. lia.
  - cbn [enc32_full_maxbw]. rewrite encode_block32_hdr by (apply Forall_firstn'; exact Hv).
    rewrite IH; [|rewrite skipn_length; lia|apply Forall_skipn'; exact Hv].
    rewrite (firstn_split 128 (128 * S k) vs) by lia.
    rewrite max_val_app, bits_needed_max.
    replace (128 * S k - 128)%nat with (128 * k)%nat by lia.
    destruct (m <? bits_needed (max_val (firstn 128 vs))) eqn:E; lia.
Qed.

Lemma land127 x : x < 128 -> N.land x 127 = x.
Proof. intro H. change 127 with (N.ones 7). rewrite N.land_ones. apply N.mod_small. exact H. Qed.

Theorem encode32_meta_ok vs : vs <> [] -> Forall (fun v => v < 2 ^ 32) vs ->
  let m := encode32_meta vs in
  let n := N.of_nat (length vs) in
  m_count m = n /\
  m_encodedBytes m = N.of_nat (length (encode32 vs)) /\
  m_blockCount m = (n + 127) / 128 /\
  m_lastBlockSize m = n - 128 * ((n + 127) / 128 - 1) /\
  m_maxBitWidth m = bits_needed (max_val vs).
Proof.
  intros Hne Hv. cbv zeta. unfold encode32_meta. cbv zeta.
  assert (0 < N.of_nat (length vs)) by (destruct vs; [congruence|cbn [length]; lia]).
  destruct (N.of_nat (length vs) =? 0) eqn:E; [lia|].
  cbn [m_count m_encodedBytes m_blockCount m_lastBlockSize m_maxBitWidth]. rewrite nlen_eq.
  set (n := N.of_nat (length vs)) in *.
  repeat split.
  - destruct (0 <? n mod 128) eqn:F; lia.
  - destruct (0 <? n mod 128) eqn:F; lia.
  - rewrite enc32_full_maxbw_eq by (assumption || lia).
    replace (N.to_nat (n / 128 * 128)) with (128 * N.to_nat (n / 128))%nat by lia.
    set (k := (128 * N.to_nat (n / 128))%nat).
    assert (Em : max_val vs = N.max (max_val (firstn k vs)) (max_val (skipn k vs)))
      by (rewrite <- max_val_app, firstn_skipn; reflexivity).
    rewrite Em, bits_needed_max.
    destruct (0 <? n mod 128) eqn:F.
    + rewrite max_bit_width_eq.
      pose proof (width_le 32 (skipn k vs) (Forall_skipn' _ _ _ Hv)) as W.
      rewrite land127 by lia.
      destruct (_ <? bits_needed (max_val (skipn k vs))) eqn:G; lia.
    + assert (Z : skipn k vs = []).
      { apply length_zero_iff_nil. rewrite skipn_length. subst k. lia. }
      rewrite Z, max_val_nil. unfold bits_needed. cbn. lia.
Qed.

Theorem encode32_meta_nil : encode32_meta [] = meta_zero.
Proof. reflexivity. Qed.
