(* Properties_C01_external.v — property C01 for the external family
   (varintExternal.{c,h}, varintExternalBigEndian.{c,h}; little-endian host,
   widths 1..8).  Nothing but statements closed by `exact`, each followed by
   Print Assumptions.  A width is a `nat`; `None` = a width the C switch does
   not handle. *)
Require Import VV.Base VV.External VV.ExternalProofs VV.ExternalSignedProofs.
Local Open Scope N_scope.

(* ---- little-endian storage ---- *)

(* decode (encode x), read with the length the encoder returned, is x; the
   bytes that follow do not matter *)
Theorem C01_external_roundtrip : forall x tl, x < 18446744073709551616 ->
  ext_get (ext_put x ++ tl) (length (ext_put x)) = Some x.
Proof. exact external_roundtrip. Qed.
Print Assumptions C01_external_roundtrip.

(* bytes written = varintExternalUnsignedEncoding = varintExternalLen =
   varintExternalUnsignedLen (= varintExternalSignedEncoding where that one is
   defined), all in 1..8 *)
Theorem C01_external_lengths : forall x, x < 18446744073709551616 ->
  length (ext_put x) = ext_width x /\ ext_unsigned_encoding x = ext_width x /\
  ext_len x = ext_width x /\ ext_unsigned_len x = ext_width x /\
  (x < 9223372036854775808 -> ext_signed_encoding (Z.of_N x) = Some (ext_width x)) /\
  (1 <= ext_width x <= 8)%nat.
Proof. exact external_len_agree. Qed.
Print Assumptions C01_external_lengths.

(* the variable-width writers are the fixed-width writers at the minimal
   width (so the model's unreachable default is really unreachable), and the
   fixed-width writers are defined exactly for widths 1..8 *)
Theorem C01_external_put_as_fixed : forall x, x < 18446744073709551616 ->
  ext_put_fixed x (ext_width x) = Some (ext_put x) /\
  extbe_put_fixed x (ext_width x) = Some (extbe_put x).
Proof. exact ext_put_as_fixed. Qed.
Print Assumptions C01_external_put_as_fixed.

Theorem C01_external_fixed_domain : forall x w, ~ (1 <= w <= 8)%nat ->
  ext_put_fixed x w = None /\ extbe_put_fixed x w = None.
Proof. exact ext_fixed_domain. Qed.
Print Assumptions C01_external_fixed_domain.

(* fixed width w with ext_width x <= w <= 8: exactly w bytes are produced and
   they read back as x *)
Theorem C01_external_fixed_roundtrip : forall x w tl, x < 18446744073709551616 ->
  (ext_width x <= w <= 8)%nat ->
  ext_put_fixed x w = Some (le_bytes w x) /\ length (le_bytes w x) = w /\
  ext_get (le_bytes w x ++ tl) w = Some x.
Proof. exact external_fixed_roundtrip. Qed.
Print Assumptions C01_external_fixed_roundtrip.

(* any width 1..8, in particular one below the minimal width: truncation to
   w bytes, nothing else *)
Theorem C01_external_fixed_truncates : forall x w tl, (1 <= w <= 8)%nat ->
  ext_put_fixed x w = Some (le_bytes w x) /\ length (le_bytes w x) = w /\
  ext_get (le_bytes w x ++ tl) w = Some (x mod 256 ^ N.of_nat w).
Proof. exact external_fixed_trunc. Qed.
Print Assumptions C01_external_fixed_truncates.

(* the writer macros are the function, for every width *)
Theorem C01_external_putq : forall x w, ext_putq x w = ext_put_fixed x w.
Proof. exact ext_putq_eq. Qed.
Print Assumptions C01_external_putq.

Theorem C01_external_putq_medium : forall x w, ext_putq_medium x w = ext_put_fixed x w.
Proof. exact ext_putq_medium_eq. Qed.
Print Assumptions C01_external_putq_medium.

(* the reader macros are the function, for every width and all stored bytes *)
Theorem C01_external_getq : forall z w, bytes_ok z -> ext_getq z w = ext_get z w.
Proof. exact ext_getq_eq. Qed.
Print Assumptions C01_external_getq.

Theorem C01_external_getq_medium : forall z w, bytes_ok z -> ext_getq_medium z w = ext_get z w.
Proof. exact ext_getq_medium_eq. Qed.
Print Assumptions C01_external_getq_medium.

Theorem C01_external_getq_medium_rv : forall z w, bytes_ok z -> ext_getq_medium_rv z w = ext_get z w.
Proof. exact ext_getq_medium_rv_eq. Qed.
Print Assumptions C01_external_getq_medium_rv.

(* the reader depends on the first w bytes only *)
Theorem C01_external_get_reads_w : forall z z' w, firstn w z = firstn w z' -> ext_get z w = ext_get z' w.
Proof. exact ext_get_reads_w. Qed.
Print Assumptions C01_external_get_reads_w.

(* ---- big-endian storage ---- *)

Theorem C01_externalbe_roundtrip : forall x tl, x < 18446744073709551616 ->
  extbe_get (extbe_put x ++ tl) (length (extbe_put x)) = Some x.
Proof. exact externalbe_roundtrip. Qed.
Print Assumptions C01_externalbe_roundtrip.

Theorem C01_externalbe_length : forall x, x < 18446744073709551616 ->
  length (extbe_put x) = ext_width x.
Proof. exact extbe_put_length. Qed.
Print Assumptions C01_externalbe_length.

Theorem C01_externalbe_fixed_roundtrip : forall x w tl, x < 18446744073709551616 ->
  (ext_width x <= w <= 8)%nat ->
  extbe_put_fixed x w = Some (be_bytes w x) /\ length (be_bytes w x) = w /\
  extbe_get (be_bytes w x ++ tl) w = Some x.
Proof. exact externalbe_fixed_roundtrip. Qed.
Print Assumptions C01_externalbe_fixed_roundtrip.

Theorem C01_externalbe_fixed_truncates : forall x w tl, (1 <= w <= 8)%nat ->
  extbe_put_fixed x w = Some (be_bytes w x) /\ length (be_bytes w x) = w /\
  extbe_get (be_bytes w x ++ tl) w = Some (x mod 256 ^ N.of_nat w).
Proof. exact externalbe_fixed_trunc. Qed.
Print Assumptions C01_externalbe_fixed_truncates.

Theorem C01_externalbe_putq : forall x w, extbe_putq x w = extbe_put_fixed x w.
Proof. exact extbe_putq_eq. Qed.
Print Assumptions C01_externalbe_putq.

Theorem C01_externalbe_getq : forall z w, bytes_ok z -> extbe_getq z w = extbe_get z w.
Proof. exact extbe_getq_eq. Qed.
Print Assumptions C01_externalbe_getq.

Theorem C01_externalbe_get_reads_w : forall z z' w, firstn w z = firstn w z' -> extbe_get z w = extbe_get z' w.
Proof. exact extbe_get_reads_w. Qed.
Print Assumptions C01_externalbe_get_reads_w.

(* ---- signed-storage helpers, 24/40/48/56-bit fields (w = 3,5,6,7 bytes) ----
   every value strictly between -(2^(8w-1)) and 2^(8w-1): the prepared word
   fits the w-byte field and restoring it gives the original back *)
Theorem C01_external_signed_restore : forall w v, (w = 3 \/ w = 5 \/ w = 6 \/ w = 7)%nat ->
  (- Z.of_N (2 ^ (8 * N.of_nat w - 1)) < v < Z.of_N (2 ^ (8 * N.of_nat w - 1)))%Z ->
  exists p, prepare_w w v = Some p /\
            (0 <= p < Z.of_N (2 ^ (8 * N.of_nat w)))%Z /\
            restore_w w p = Some v.
Proof. exact signed_restore. Qed.
Print Assumptions C01_external_signed_restore.

(* non-vacuity: values across width boundaries, a truncating width, a
   negative value in a 40-bit field; and the signed bound is tight *)
Example C01_external_examples :
  ext_put 65535 = [255; 255] /\ ext_put 65536 = [0; 0; 1] /\
  ext_get (ext_put 18446744073709551615) 8 = Some 18446744073709551615 /\
  ext_put_fixed 65536 2 = Some [0; 0] /\ extbe_put 65536 = [1; 0; 0] /\
  prepare_w 5 (-5) = Some 549755813893%Z /\ restore_w 5 549755813893 = Some (-5)%Z /\
  prepare_w 3 (-8388608) = Some 0%Z.
Proof. vm_compute. repeat split; reflexivity. Qed.
