(* ChainedWiring.v — a small reflective "wiring" checker for pure
   shift / mask / or code over input bytes (DESIGN.md section 5).

   An expression is built from input bytes, constants, truncating left
   shifts, right shifts, masks with constants and bitwise or.  [sym] computes,
   for one output bit, which input bit (or constant) drives it, failing when
   two different input bits are or-ed into the same position.  Two expressions
   with the same wiring on every bit below a common width are equal for ALL
   byte values: one soundness lemma, after which each instance is a
   [vm_compute].  Generic: nothing here mentions the chained codec. *)
Require Import VV.Base VV.BaseProofs.
From Coq Require Import Lia ZifyBool ZifyN ZifyNat Arith.
Local Open Scope N_scope.

Inductive src := SZero | SOne | SInp (i : nat) (j : N).

Inductive expr :=
| EByte (i : nat)
| EConst (c : N)
| EShl (w : N) (e : expr) (k : N)      (* (e << k) truncated to w bits *)
| EShr (e : expr) (k : N)
| EAnd (e : expr) (c : N)
| EOr (e1 e2 : expr).

Fixpoint eval (env : nat -> N) (e : expr) : N :=
  match e with
  | EByte i => env i
  | EConst c => c
  | EShl w e k => (eval env e * 2 ^ k) mod 2 ^ w
  | EShr e k => eval env e / 2 ^ k
  | EAnd e c => N.land (eval env e) c
  | EOr a b => N.lor (eval env a) (eval env b)
  end.

Definition den (env : nat -> N) (s : src) : bool :=
  match s with
  | SZero => false
  | SOne => true
  | SInp i j => N.testbit (env i) j
  end.

(* bw i = number of significant bits of input byte i (8, or fewer when a
   branch condition has established that high bits are clear) *)
Fixpoint sym (bw : nat -> N) (e : expr) (k : N) : option src :=
  match e with
  | EByte i => Some (if k <? bw i then SInp i k else SZero)
  | EConst c => Some (if N.testbit c k then SOne else SZero)
  | EShl w e s =>
      if k <? w then (if k <? s then Some SZero else sym bw e (k - s)) else Some SZero
  | EShr e s => sym bw e (k + s)
  | EAnd e c => if N.testbit c k then sym bw e k else Some SZero
  | EOr a b =>
      match sym bw a k, sym bw b k with
      | Some SZero, r => r
      | r, Some SZero => r
      | Some SOne, Some _ => Some SOne
      | Some _, Some SOne => Some SOne
      | Some (SInp i j), Some (SInp i' j') =>
          if (i =? i')%nat && (j =? j') then Some (SInp i j) else None
      | _, _ => None
      end
  end.

(* an upper bound on the number of significant bits *)
Fixpoint width (e : expr) : N :=
  match e with
  | EByte _ => 8
  | EConst c => N.size c
  | EShl w _ _ => w
  | EShr e _ => width e
  | EAnd e _ => width e
  | EOr a b => N.max (width a) (width b)
  end.

Lemma testbit_high x n k : x < 2 ^ n -> n <= k -> N.testbit x k = false.
Proof.
  intros Hx Hk. destruct (N.eq_dec x 0) as [->|H0]; [apply N.bits_0|].
  apply N.bits_above_log2. apply N.lt_le_trans with n; [|exact Hk].
  apply N.log2_lt_pow2; lia.
Qed.

Lemma lt_pow2_of_bits x n : (forall k, n <= k -> N.testbit x k = false) -> x < 2 ^ n.
Proof.
  intro H. destruct (N.eq_dec x 0) as [->|H0].
  - apply N.neq_0_lt_0. apply N.pow_nonzero. lia.
  - apply N.log2_lt_pow2; [lia|].
    destruct (N.lt_ge_cases (N.log2 x) n) as [L|G]; [exact L|].
    specialize (H _ G). rewrite N.bit_log2 in H by exact H0. discriminate.
Qed.

Section Sound.
  Variable env : nat -> N.
  Variable bw : nat -> N.
  Hypothesis env_ok : forall i, env i < 2 ^ bw i.

  Lemma sym_sound e : forall k s, sym bw e k = Some s -> N.testbit (eval env e) k = den env s.
  Proof.
    induction e as [i|c|w e IH s0|e IH s0|e IH c|a IHa b IHb]; intros k s H; cbn [sym eval] in *.
    - injection H as <-. destruct (k <? bw i) eqn:E; cbn [den]; [reflexivity|].
      apply testbit_high with (bw i); [apply env_ok | lia].
    - injection H as <-. destruct (N.testbit c k); reflexivity.
    - destruct (k <? w) eqn:Ew.
      + rewrite N.mod_pow2_bits_low by lia.
        destruct (k <? s0) eqn:Es.
        * injection H as <-. cbn [den]. apply N.mul_pow2_bits_low. lia.
        * rewrite N.mul_pow2_bits_high by lia. apply IH. exact H.
      + injection H as <-. cbn [den]. apply N.mod_pow2_bits_high. lia.
    - rewrite N.div_pow2_bits. apply IH. exact H.
    - rewrite N.land_spec. destruct (N.testbit c k).
      + rewrite andb_true_r. apply IH. exact H.
      + injection H as <-. cbn [den]. apply andb_false_r.
    - rewrite N.lor_spec.
      destruct (sym bw a k) as [sa|] eqn:Ea; destruct (sym bw b k) as [sb|] eqn:Eb.
      + rewrite (IHa k sa Ea), (IHb k sb Eb).
        destruct sa as [| |i j]; destruct sb as [| |i' j']; cbn [den] in *;
          try (injection H as <-; cbn [den];
               rewrite ?orb_false_r, ?orb_true_r, ?orb_false_l, ?orb_true_l; reflexivity).
        destruct ((i =? i')%nat && (j =? j')) eqn:E; [|discriminate].
        injection H as <-. cbn [den].
        apply andb_true_iff in E. destruct E as [E1 E2].
        apply Nat.eqb_eq in E1. apply N.eqb_eq in E2. subst. apply orb_diag.
      + destruct sa; discriminate.
      + destruct sb; discriminate.
      + discriminate.
  Qed.

  Hypothesis bw_le8 : forall i, bw i <= 8.

  Lemma eval_bits_high e : forall k, width e <= k -> N.testbit (eval env e) k = false.
  Proof.
    induction e as [i|c|w e IH s0|e IH s0|e IH c|a IHa b IHb]; intros k Hk; cbn [width eval] in *.
    - apply testbit_high with (bw i); [apply env_ok|]. specialize (bw_le8 i). lia.
    - apply testbit_high with (N.size c); [apply N.size_gt | exact Hk].
    - apply N.mod_pow2_bits_high. exact Hk.
    - rewrite N.div_pow2_bits. apply IH. lia.
    - rewrite N.land_spec, IH by exact Hk. reflexivity.
    - rewrite N.lor_spec, IHa, IHb by lia. reflexivity.
  Qed.

  Definition src_eqb (a b : src) : bool :=
    match a, b with
    | SZero, SZero => true
    | SOne, SOne => true
    | SInp i j, SInp i' j' => (i =? i')%nat && (j =? j')
    | _, _ => false
    end.

  Lemma src_eqb_eq a b : src_eqb a b = true -> a = b.
  Proof.
    destruct a, b; cbn; try discriminate; try reflexivity.
    intro E. apply andb_true_iff in E. destruct E as [E1 E2].
    apply Nat.eqb_eq in E1. apply N.eqb_eq in E2. subst. reflexivity.
  Qed.

  (* same wiring on bits 0 .. W-1, and both expressions narrower than W *)
  Fixpoint same_bits (W : nat) (e1 e2 : expr) : bool :=
    match W with
    | O => true
    | S W' =>
        match sym bw e1 (N.of_nat W'), sym bw e2 (N.of_nat W') with
        | Some a, Some b => src_eqb a b
        | _, _ => false
        end && same_bits W' e1 e2
    end.

  Definition same_wiring (W : nat) (e1 e2 : expr) : bool :=
    same_bits W e1 e2 && (width e1 <=? N.of_nat W) && (width e2 <=? N.of_nat W).

  Lemma same_bits_spec W e1 e2 : same_bits W e1 e2 = true ->
    forall k, k < N.of_nat W -> N.testbit (eval env e1) k = N.testbit (eval env e2) k.
  Proof.
    induction W as [|W IH]; intros H k Hk; [lia|].
    cbn [same_bits] in H. apply andb_true_iff in H. destruct H as [H1 H2].
    destruct (N.eq_dec k (N.of_nat W)) as [->|Hne].
    - destruct (sym bw e1 (N.of_nat W)) as [a|] eqn:E1; [|discriminate].
      destruct (sym bw e2 (N.of_nat W)) as [b|] eqn:E2; [|discriminate].
      apply src_eqb_eq in H1. subst b.
      rewrite (sym_sound _ _ _ E1), (sym_sound _ _ _ E2). reflexivity.
    - apply IH; [exact H2 | lia].
  Qed.

  Theorem wiring_eq W e1 e2 : same_wiring W e1 e2 = true -> eval env e1 = eval env e2.
  Proof.
    unfold same_wiring. intro H.
    apply andb_true_iff in H. destruct H as [H H3].
    apply andb_true_iff in H. destruct H as [H1 H2].
    apply N.leb_le in H2, H3.
    apply N.bits_inj. intro k.
    destruct (N.lt_ge_cases k (N.of_nat W)) as [L|G].
    - apply same_bits_spec with W; assumption.
    - rewrite !eval_bits_high by lia. reflexivity.
  Qed.
End Sound.

(* ---- reification of model terms over `byte_at z _` ---- *)
Ltac reify z t :=
  lazymatch t with
  | N.lor ?a ?b => let ea := reify z a in let eb := reify z b in constr:(EOr ea eb)
  | N.land ?a ?c => let ea := reify z a in constr:(EAnd ea c)
  | shl32 ?a ?k => let ea := reify z a in constr:(EShl 32 ea k)
  | shl64 ?a ?k => let ea := reify z a in constr:(EShl 64 ea k)
  | shr ?a ?k => let ea := reify z a in constr:(EShr ea k)
  | u8 ?a => let ea := reify z a in constr:(EShl 8 ea 0)
  | u32 ?a => let ea := reify z a in constr:(EShl 32 ea 0)
  | byte_at z ?i => constr:(EByte i)
  | _ => constr:(EConst t)
  end.

(* standard bit-width environments: all bytes 8 bits; byte j known < 128 *)
Definition bw8 : nat -> N := fun _ => 8.
Definition bw7 (j : nat) : nat -> N := fun i => if (i =? j)%nat then 7 else 8.

Lemma bw8_le i : bw8 i <= 8. Proof. unfold bw8. lia. Qed.
Lemma bw7_le j i : bw7 j i <= 8. Proof. unfold bw7. destruct (i =? j)%nat; lia. Qed.

Lemma bw8_ok z : bytes_ok z -> forall i, byte_at z i < 2 ^ bw8 i.
Proof. intros H i. unfold bw8. change (2 ^ 8) with 256. apply byte_at_lt. exact H. Qed.

Lemma bw7_ok z j : bytes_ok z -> byte_at z j < 128 -> forall i, byte_at z i < 2 ^ bw7 j i.
Proof.
  intros H Hj i. unfold bw7. destruct (Nat.eqb_spec i j) as [->|Hne].
  - change (2 ^ 7) with 128. exact Hj.
  - change (2 ^ 8) with 256. apply byte_at_lt. exact H.
Qed.

(* Goal `l = r` over bytes of z; Hbw : forall i, byte_at z i < 2 ^ bw i,
   Hle : forall i, bw i <= 8.  Closes the goal when both sides have the same
   wiring on 64 bits. *)
Ltac wire_with z bw Hbw Hle :=
  lazymatch goal with
  | |- ?l = ?r =>
      let el := reify z l in
      let er := reify z r in
      change (eval (fun i => byte_at z i) el = eval (fun i => byte_at z i) er);
      apply (wiring_eq (fun i => byte_at z i) bw Hbw Hle 64%nat);
      vm_compute; reflexivity
  end.

(* environment restricted to the first k bytes (the ones a return point
   actually reads): nothing is assumed about later bytes *)
Definition envk (z : list N) (k : nat) : nat -> N :=
  fun i => if (i <? k)%nat then byte_at z i else 0.

Lemma envk_ok8 z k : (forall i, (i < k)%nat -> byte_at z i < 256) ->
  forall i, envk z k i < 2 ^ bw8 i.
Proof.
  intros H i. unfold envk, bw8. change (2 ^ 8) with 256.
  destruct (Nat.ltb_spec i k) as [L|G]; [apply H; exact L | lia].
Qed.

Lemma envk_ok7 z k j : (forall i, (i < k)%nat -> byte_at z i < 256) -> byte_at z j < 128 ->
  forall i, envk z k i < 2 ^ bw7 j i.
Proof.
  intros H Hj i. unfold envk, bw7.
  destruct (Nat.ltb_spec i k) as [L|G]; destruct (Nat.eqb_spec i j) as [->|Hne];
    change (2 ^ 7) with 128; change (2 ^ 8) with 256; try lia.
  apply H. exact L.
Qed.

Ltac wire_k z k bw Hbw Hle :=
  lazymatch goal with
  | |- ?l = ?r =>
      let el := reify z l in
      let er := reify z r in
      change (eval (envk z k) el = eval (envk z k) er);
      apply (wiring_eq (envk z k) bw Hbw Hle 64%nat);
      vm_compute; reflexivity
  end.
