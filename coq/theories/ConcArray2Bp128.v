(* ConcArray2Bp128.v — C17 instances for BP128 (BP128.v), 32- and 64-bit,
   plain and delta: the four encoders and the four decoders as concurrent
   calls on shared read-only inputs with caller-supplied outputs.

   Footprints.  Encoders: the bytes written never exceed
   varintBP128MaxBytes(count) (C03_bp128_encode32_bound, _delta_encode32_,
   _encode64_, _delta_encode64_bound).  Decoders: at most maxCount values are
   stored, whatever the bytes (C13_bp128_*_within_cap). *)
Require Import VV.Conc VV.ConcProofs VV.ConcCodec VV.ConcCodec2 VV.ConcArray.
Require Import VV.Base VV.BaseProofs VV.Tagged VV.BP128.
Require Import VV.BP128Proofs32 VV.BP128ProofsD32 VV.BP128Proofs64 VV.BP128ProofsD64.
From Coq Require Import List NArith Arith Lia Bool ZifyBool ZifyN ZifyNat.
Import ListNotations.
Local Open Scope N_scope.

Lemma map_u32_ok l : Forall (fun v => v < 2 ^ 32) (map u32 l).
Proof.
  apply Forall_forall. intros x H. apply in_map_iff in H. destruct H as (y & <- & _).
  change (2 ^ 32) with 4294967296. unfold u32. apply N.mod_lt. lia.
Qed.

Lemma map_u64_ok_pow l : Forall (fun v => v < 2 ^ 64) (map u64 l).
Proof.
  apply Forall_forall. intros x H. apply in_map_iff in H. destruct H as (y & <- & _).
  change (2 ^ 64) with 18446744073709551616. apply u64_lt.
Qed.

Section Bp128.
  Variable cast : N -> N.                      (* the element type of the value array *)
  Variable lim : N.
  Hypothesis cast_ok : forall l, Forall (fun v => v < lim) (map cast l).

  (* ---- an encoder: values are n cells at src (shared); result [bytes written] ---- *)
  Variable enc : list N -> list N.
  Hypothesis enc_bound : forall vs, Forall (fun v => v < lim) vs ->
    N.of_nat (length (enc vs)) <= max_bytes (N.of_nat (length vs)).

  Definition bp_enc_fn (vs : list N) : list N * list N :=
    (enc (map cast vs), [N.of_nat (length (enc (map cast vs)))]).

  Theorem bp_encode_threads_safe (ps : list io) (m0 : mem) :
    (forall i j pi pj, i <> j -> nth_error ps i = Some pi -> nth_error ps j = Some pj ->
       forall l, in_range (io_dst pj) (N.to_nat (max_bytes (N.of_nat (io_n pj)))) l ->
         ~ in_range (io_dst pi) (N.to_nat (max_bytes (N.of_nat (io_n pi)))) l /\
         ~ in_range (io_src pi) (io_n pi) l) ->
    forall sched,
    let ths := map (fun p => prog1 (io_src p) (io_n p) (io_dst p) bp_enc_fn) ps in
    ~ races (snd (crun sched (m0, ths))) /\
    forall i p r, nth_error ps i = Some p ->
      nth_error (snd (crun sched (m0, ths))) i = Some (Ret r) ->
      let res := bp_enc_fn (peek m0 (io_src p) (io_n p)) in
      r = snd res /\
      forall j, (j < length (fst res))%nat ->
        fst (crun sched (m0, ths)) (io_dst p + N.of_nat j) = nth j (fst res) 0.
  Proof.
    intros AP sched.
    refine (family1_safe io io_src io_n io_dst
              (fun p => N.to_nat (max_bytes (N.of_nat (io_n p))))
              (fun _ => bp_enc_fn) ps m0 _ AP sched).
    intros p _ bs Hl. unfold bp_enc_fn. cbn [fst].
    pose proof (enc_bound (map cast bs) (cast_ok bs)) as H. rewrite map_length, Hl in H. lia.
  Qed.

End Bp128.

Section Bp128Dec.
  (* ---- a decoder: the encoding is n byte cells at src (shared); output: at
     most maxCount cells at dst; result [1; values stored], or [0] where the C
     is undefined (a block header announcing a bit width the element type
     cannot hold) — then nothing is modelled as written ---- *)
  Variable dec : list N -> N -> option (list N).
  Hypothesis dec_cap : forall z cap out, dec z cap = Some out -> N.of_nat (length out) <= cap.

  Definition bp_dec_fn (cap : N) (bs : list N) : list N * list N :=
    match dec (map u8 bs) cap with
    | Some out => (out, [1; N.of_nat (length out)])
    | None => ([], [0])
    end.

  Theorem bp_decode_threads_safe (ps : list (io * N)) (m0 : mem) :
    (forall i j pi pj, i <> j -> nth_error ps i = Some pi -> nth_error ps j = Some pj ->
       forall l, in_range (io_dst (fst pj)) (N.to_nat (snd pj)) l ->
         ~ in_range (io_dst (fst pi)) (N.to_nat (snd pi)) l /\
         ~ in_range (io_src (fst pi)) (io_n (fst pi)) l) ->
    forall sched,
    let ths := map (fun p => prog1 (io_src (fst p)) (io_n (fst p)) (io_dst (fst p)) (bp_dec_fn (snd p))) ps in
    ~ races (snd (crun sched (m0, ths))) /\
    forall i p r, nth_error ps i = Some p ->
      nth_error (snd (crun sched (m0, ths))) i = Some (Ret r) ->
      let res := bp_dec_fn (snd p) (peek m0 (io_src (fst p)) (io_n (fst p))) in
      r = snd res /\
      forall j, (j < length (fst res))%nat ->
        fst (crun sched (m0, ths)) (io_dst (fst p) + N.of_nat j) = nth j (fst res) 0.
  Proof.
    intros AP sched.
    refine (family1_safe (io * N) (fun p => io_src (fst p)) (fun p => io_n (fst p))
              (fun p => io_dst (fst p)) (fun p => N.to_nat (snd p))
              (fun p => bp_dec_fn (snd p)) ps m0 _ AP sched).
    intros p _ bs _. unfold bp_dec_fn.
    destruct (dec (map u8 bs) (snd p)) as [out|] eqn:E; cbn [fst length]; [|lia].
    pose proof (dec_cap _ _ _ E). lia.
  Qed.
End Bp128Dec.

(* ---------------- the eight calls ---------------- *)
(* varintBP128Encode32 / DeltaEncode32: uint32_t values *)
Definition bp128_enc32_fn : list N -> list N * list N := bp_enc_fn u32 encode32.
Definition bp128_denc32_fn : list N -> list N * list N := bp_enc_fn u32 delta_encode32.
(* varintBP128Encode64 / DeltaEncode64: uint64_t values *)
Definition bp128_enc64_fn : list N -> list N * list N := bp_enc_fn u64 encode64.
Definition bp128_denc64_fn : list N -> list N * list N := bp_enc_fn u64 delta_encode64.
(* varintBP128Decode32 / DeltaDecode32 / Decode64 / DeltaDecode64 (src, values, maxCount) *)
Definition bp128_dec32_fn : N -> list N -> list N * list N := bp_dec_fn decode32.
Definition bp128_ddec32_fn : N -> list N -> list N * list N := bp_dec_fn delta_decode32.
Definition bp128_dec64_fn : N -> list N -> list N * list N := bp_dec_fn decode64.
Definition bp128_ddec64_fn : N -> list N -> list N * list N := bp_dec_fn delta_decode64.

Definition bp128_encode32_threads_safe := bp_encode_threads_safe u32 (2 ^ 32) map_u32_ok encode32 encode32_bound.
Definition bp128_delta_encode32_threads_safe :=
  bp_encode_threads_safe u32 (2 ^ 32) map_u32_ok delta_encode32 delta_encode32_bound.
Definition bp128_encode64_threads_safe := bp_encode_threads_safe u64 (2 ^ 64) map_u64_ok_pow encode64 encode64_bound.
Definition bp128_delta_encode64_threads_safe :=
  bp_encode_threads_safe u64 (2 ^ 64) map_u64_ok_pow delta_encode64 delta_encode64_bound.
Definition bp128_decode32_threads_safe := bp_decode_threads_safe decode32 decode32_within_cap.
Definition bp128_delta_decode32_threads_safe := bp_decode_threads_safe delta_decode32 delta_decode32_within_cap.
Definition bp128_decode64_threads_safe := bp_decode_threads_safe decode64 decode64_within_cap.
Definition bp128_delta_decode64_threads_safe := bp_decode_threads_safe delta_decode64 delta_decode64_within_cap.
