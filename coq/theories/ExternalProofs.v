(* ExternalProofs.v — C01/C04 lemmas about the External model (little- and
   big-endian storage, fixed width, quick macros). *)
Require Import VV.Base VV.BaseProofs VV.External VV.ExternalLemmas.
From Coq Require Import Lia ZifyBool ZifyN ZifyNat Arith.
Local Open Scope N_scope.
Ltac Zify.zify_post_hook ::= Z.div_mod_to_equations.

Notation two64 := 18446744073709551616 (only parsing).

(* ---------------- widths ---------------- *)

Lemma ext_width_range x : x < two64 -> (1 <= ext_width x <= 8)%nat.
Proof. intro H. apply (ext_width_bounds x H). Qed.

Lemma ext_width_fits x : x < two64 -> x < 256 ^ N.of_nat (ext_width x).
Proof. intro H. apply (ext_width_bounds x H). Qed.

(* x < 256^k for some k >= 1 implies the loop stops at or before k *)
Lemma ext_width_minimal x k : x < two64 -> (1 <= k)%nat -> x < 256 ^ N.of_nat k ->
  (ext_width x <= k)%nat.
Proof.
  intros Hx Hk Hlt. destruct (ext_width_bounds x Hx) as (A & B & [C|C]); [lia|].
  destruct (le_lt_dec (ext_width x) k) as [L|G]; [exact L|exfalso].
  pose proof (pow256_mono k (ext_width x - 1) ltac:(lia)). lia.
Qed.

Lemma ext_width_mono x y : x < two64 -> y < two64 -> x <= y -> (ext_width x <= ext_width y)%nat.
Proof.
  intros Hx Hy Hle. apply ext_width_minimal; [exact Hx| |].
  - apply (ext_width_range y Hy).
  - pose proof (ext_width_fits y Hy). lia.
Qed.

Lemma mod_small_width x w : x < two64 -> (ext_width x <= w)%nat -> x mod 256 ^ N.of_nat w = x.
Proof.
  intros Hx Hw. apply N.mod_small.
  pose proof (ext_width_fits x Hx). pose proof (pow256_mono _ _ Hw). lia.
Qed.

(* ---------------- little-endian: put / put_fixed / get ---------------- *)

Lemma ext_put_fixed_spec x w : (1 <= w <= 8)%nat -> ext_put_fixed x w = Some (le_bytes w x).
Proof. intro H. unfold ext_put_fixed. rewrite ext_copy_le_spec by exact H. rewrite le_bytes_src. reflexivity. Qed.

Lemma ext_put_fixed_none x w : ~ (1 <= w <= 8)%nat -> ext_put_fixed x w = None.
Proof. apply ext_copy_le_none. Qed.

(* the `None` arm of ext_put is dead *)
Lemma ext_put_defined x : x < two64 ->
  ext_copy_le (src_byte x) (ext_unsigned_encoding x) = Some (ext_put x).
Proof.
  intro H. unfold ext_put, ext_unsigned_encoding.
  rewrite ext_copy_le_spec by (apply ext_width_range; exact H). reflexivity.
Qed.

Lemma ext_put_is_spec x : x < two64 -> ext_put x = le_bytes (ext_width x) x.
Proof.
  intro H. unfold ext_put, ext_unsigned_encoding.
  rewrite ext_copy_le_spec by (apply ext_width_range; exact H).
  rewrite le_bytes_src. reflexivity.
Qed.

Lemma ext_put_length x : x < two64 -> length (ext_put x) = ext_width x.
Proof. intro H. rewrite ext_put_is_spec by exact H. apply length_le_bytes. Qed.

Lemma ext_put_bytes_ok x : x < two64 -> bytes_ok (ext_put x).
Proof. intro H. rewrite ext_put_is_spec by exact H. apply bytes_ok_le_bytes. Qed.

Lemma ext_get_spec z w : (1 <= w <= 8)%nat -> ext_get z w = Some (of_le (map (byte_at z) (seq 0 w))).
Proof. intro H. unfold ext_get. rewrite ext_copy_le_spec by exact H. reflexivity. Qed.

Lemma ext_get_app bs tl : (1 <= length bs <= 8)%nat -> ext_get (bs ++ tl) (length bs) = Some (of_le bs).
Proof. intro H. rewrite ext_get_spec by exact H. rewrite map_nth_seq_app. reflexivity. Qed.

(* the reader looks at the first w bytes only *)
Lemma ext_get_reads_w z z' w : firstn w z = firstn w z' -> ext_get z w = ext_get z' w.
Proof.
  intro H. unfold ext_get.
  destruct (le_lt_dec 1 w) as [L|G]; [destruct (le_lt_dec w 8) as [L8|G8]|].
  - rewrite !ext_copy_le_spec by lia.
    rewrite (map_byte_at_firstn z), (map_byte_at_firstn z'), H. reflexivity.
  - rewrite !ext_copy_le_none by lia. reflexivity.
  - rewrite !ext_copy_le_none by lia. reflexivity.
Qed.

Lemma external_roundtrip x tl : x < two64 ->
  ext_get (ext_put x ++ tl) (length (ext_put x)) = Some x.
Proof.
  intro H. rewrite ext_get_app by (rewrite ext_put_length by exact H; apply ext_width_range; exact H).
  rewrite ext_put_is_spec by exact H. rewrite of_le_le_bytes.
  f_equal. apply mod_small_width; [exact H|lia].
Qed.

Lemma external_len_agree x : x < two64 ->
  length (ext_put x) = ext_width x /\ ext_unsigned_encoding x = ext_width x /\
  ext_len x = ext_width x /\ ext_unsigned_len x = ext_width x /\
  (x < 9223372036854775808 -> ext_signed_encoding (Z.of_N x) = Some (ext_width x)) /\
  (1 <= ext_width x <= 8)%nat.
Proof.
  intro H. split; [apply ext_put_length; exact H|]. split; [reflexivity|].
  split. { unfold ext_len, ext_unsigned_len, ext_unsigned_encoding, u64. rewrite N.mod_small by exact H. reflexivity. }
  split; [reflexivity|]. split; [|apply ext_width_range; exact H].
  intro Hs. unfold ext_signed_encoding.
  destruct (Z.of_N x <? 0)%Z eqn:E; [lia|]. f_equal. unfold ext_unsigned_encoding. f_equal.
  unfold of_s64. lia.
Qed.

(* any width 1..8: what comes back is x truncated to w bytes *)
Lemma external_fixed_trunc x w tl : (1 <= w <= 8)%nat ->
  ext_put_fixed x w = Some (le_bytes w x) /\ length (le_bytes w x) = w /\
  ext_get (le_bytes w x ++ tl) w = Some (x mod 256 ^ N.of_nat w).
Proof.
  intro H. split; [apply ext_put_fixed_spec; exact H|]. split; [apply length_le_bytes|].
  pose proof (ext_get_app (le_bytes w x) tl) as G. rewrite length_le_bytes in G.
  rewrite G by exact H. rewrite of_le_le_bytes. reflexivity.
Qed.

Lemma external_fixed_roundtrip x w tl : x < two64 -> (ext_width x <= w <= 8)%nat ->
  ext_put_fixed x w = Some (le_bytes w x) /\ length (le_bytes w x) = w /\
  ext_get (le_bytes w x ++ tl) w = Some x.
Proof.
  intros Hx Hw. pose proof (ext_width_range x Hx).
  destruct (external_fixed_trunc x w tl ltac:(lia)) as (A & B & C).
  split; [exact A|]. split; [exact B|]. rewrite C. f_equal. apply mod_small_width; [exact Hx|lia].
Qed.

(* ---------------- little-endian quick macros ---------------- *)

Lemma ext_putq_eq x w : ext_putq x w = ext_put_fixed x w.
Proof.
  destruct w as [|[|[|[|w]]]]; try reflexivity;
    unfold ext_putq, ext_put_fixed, ext_copy_le; rewrite ?u8_land_255;
    unfold src_byte, shr; cbn [N.of_nat Pos.of_succ_nat Pos.succ N.mul Pos.mul Pos.add];
    rewrite ?N.pow_0_r, ?N.div_1_r; reflexivity.
Qed.

Lemma ext_putq_medium_eq x w : ext_putq_medium x w = ext_put_fixed x w.
Proof.
  destruct w as [|[|[|[|w]]]]; try reflexivity;
    unfold ext_putq_medium, ext_put_fixed, ext_copy_le; rewrite ?u8_land_255;
    unfold src_byte, shr; cbn [N.of_nat Pos.of_succ_nat Pos.succ N.mul Pos.mul Pos.add];
    rewrite ?N.pow_0_r, ?N.div_1_r; reflexivity.
Qed.

Lemma getq2 z : bytes_ok z ->
  N.lor (shl64 (byte_at z 1) 8) (byte_at z 0) = of_le [byte_at z 0; byte_at z 1].
Proof.
  intro H. pose proof (byte_at_lt z 0 H). pose proof (byte_at_lt z 1 H).
  rewrite shl64_byte by lia. rewrite lor2 by assumption. cbn [of_le]. lia.
Qed.

Lemma getq3 z : bytes_ok z ->
  N.lor (N.lor (shl64 (byte_at z 2) 16) (shl64 (byte_at z 1) 8)) (byte_at z 0)
  = of_le [byte_at z 0; byte_at z 1; byte_at z 2].
Proof.
  intro H. pose proof (byte_at_lt z 0 H). pose proof (byte_at_lt z 1 H). pose proof (byte_at_lt z 2 H).
  rewrite !shl64_byte by lia. rewrite lor3 by assumption. cbn [of_le]. lia.
Qed.

Lemma ext_getq_eq z w : bytes_ok z -> ext_getq z w = ext_get z w.
Proof.
  intro H. destruct w as [|[|[|[|w]]]]; try reflexivity.
  - unfold ext_getq, ext_get, ext_copy_le. cbn [of_le]. f_equal. lia.
  - unfold ext_getq, ext_get, ext_copy_le. rewrite getq2 by exact H. reflexivity.
  - unfold ext_getq, ext_get, ext_copy_le. rewrite getq3 by exact H. reflexivity.
Qed.

Lemma ext_getq_medium_eq z w : bytes_ok z -> ext_getq_medium z w = ext_get z w.
Proof.
  intro H. destruct w as [|[|[|[|w]]]]; try reflexivity.
  - unfold ext_getq_medium, ext_get, ext_copy_le. rewrite getq2 by exact H. reflexivity.
  - unfold ext_getq_medium, ext_get, ext_copy_le. rewrite getq3 by exact H. reflexivity.
Qed.

Lemma ext_getq_medium_rv_eq z w : bytes_ok z -> ext_getq_medium_rv z w = ext_get z w.
Proof.
  intro H. pose proof (byte_at_lt z 0 H). pose proof (byte_at_lt z 1 H). pose proof (byte_at_lt z 2 H).
  destruct w as [|[|[|[|w]]]]; try reflexivity.
  - unfold ext_getq_medium_rv, ext_get, ext_copy_le, shl_int. cbn [Nat.eqb].
    rewrite lor2 by assumption. cbn [of_le]. f_equal. unfold u16. lia.
  - unfold ext_getq_medium_rv, ext_get, ext_copy_le, shl_int. cbn [Nat.eqb].
    rewrite lor3 by assumption. cbn [of_le]. f_equal. unfold u32. lia.
Qed.

(* ---------------- big-endian storage ---------------- *)

Lemma extbe_put_fixed_spec x w : (1 <= w <= 8)%nat -> extbe_put_fixed x w = Some (be_bytes w x).
Proof.
  intro H. unfold extbe_put_fixed. rewrite ext_copy_be_spec by exact H.
  unfold be_bytes. rewrite le_bytes_src. reflexivity.
Qed.

Lemma extbe_put_fixed_none x w : ~ (1 <= w <= 8)%nat -> extbe_put_fixed x w = None.
Proof. apply ext_copy_be_none. Qed.

Lemma extbe_put_defined x : x < two64 ->
  ext_copy_be (src_byte x) (ext_unsigned_encoding x) = Some (extbe_put x).
Proof.
  intro H. unfold extbe_put, ext_unsigned_encoding.
  rewrite ext_copy_be_spec by (apply ext_width_range; exact H). reflexivity.
Qed.

Lemma extbe_put_is_spec x : x < two64 -> extbe_put x = be_bytes (ext_width x) x.
Proof.
  intro H. unfold extbe_put, ext_unsigned_encoding.
  rewrite ext_copy_be_spec by (apply ext_width_range; exact H).
  unfold be_bytes. rewrite le_bytes_src. reflexivity.
Qed.

Lemma extbe_put_length x : x < two64 -> length (extbe_put x) = ext_width x.
Proof. intro H. rewrite extbe_put_is_spec by exact H. apply length_be_bytes. Qed.

Lemma extbe_get_spec z w : (1 <= w <= 8)%nat ->
  extbe_get z w = Some (of_be (map (byte_at z) (seq 0 w))).
Proof. intro H. unfold extbe_get, of_be. rewrite ext_copy_be_spec by exact H. reflexivity. Qed.

Lemma extbe_get_app bs tl : (1 <= length bs <= 8)%nat -> extbe_get (bs ++ tl) (length bs) = Some (of_be bs).
Proof. intro H. rewrite extbe_get_spec by exact H. rewrite map_nth_seq_app. reflexivity. Qed.

Lemma extbe_get_reads_w z z' w : firstn w z = firstn w z' -> extbe_get z w = extbe_get z' w.
Proof.
  intro H. unfold extbe_get.
  destruct (le_lt_dec 1 w) as [L|G]; [destruct (le_lt_dec w 8) as [L8|G8]|].
  - rewrite !ext_copy_be_spec by lia.
    rewrite (map_byte_at_firstn z), (map_byte_at_firstn z'), H. reflexivity.
  - rewrite !ext_copy_be_none by lia. reflexivity.
  - rewrite !ext_copy_be_none by lia. reflexivity.
Qed.

Lemma externalbe_roundtrip x tl : x < two64 ->
  extbe_get (extbe_put x ++ tl) (length (extbe_put x)) = Some x.
Proof.
  intro H. rewrite extbe_get_app by (rewrite extbe_put_length by exact H; apply ext_width_range; exact H).
  rewrite extbe_put_is_spec by exact H. rewrite of_be_be_bytes.
  f_equal. apply mod_small_width; [exact H|lia].
Qed.

Lemma externalbe_fixed_trunc x w tl : (1 <= w <= 8)%nat ->
  extbe_put_fixed x w = Some (be_bytes w x) /\ length (be_bytes w x) = w /\
  extbe_get (be_bytes w x ++ tl) w = Some (x mod 256 ^ N.of_nat w).
Proof.
  intro H. split; [apply extbe_put_fixed_spec; exact H|]. split; [apply length_be_bytes|].
  pose proof (extbe_get_app (be_bytes w x) tl) as G. rewrite length_be_bytes in G.
  rewrite G by exact H. rewrite of_be_be_bytes. reflexivity.
Qed.

Lemma externalbe_fixed_roundtrip x w tl : x < two64 -> (ext_width x <= w <= 8)%nat ->
  extbe_put_fixed x w = Some (be_bytes w x) /\ length (be_bytes w x) = w /\
  extbe_get (be_bytes w x ++ tl) w = Some x.
Proof.
  intros Hx Hw. pose proof (ext_width_range x Hx).
  destruct (externalbe_fixed_trunc x w tl ltac:(lia)) as (A & B & C).
  split; [exact A|]. split; [exact B|]. rewrite C. f_equal. apply mod_small_width; [exact Hx|lia].
Qed.

Lemma extbe_putq_eq x w : extbe_putq x w = extbe_put_fixed x w.
Proof.
  destruct w as [|[|[|[|w]]]]; try reflexivity;
    unfold extbe_putq, extbe_put_fixed, ext_copy_be; rewrite ?u8_land_255;
    unfold src_byte, shr; cbn [N.of_nat Pos.of_succ_nat Pos.succ N.mul Pos.mul Pos.add];
    rewrite ?N.pow_0_r, ?N.div_1_r; reflexivity.
Qed.

Lemma extbe_getq_eq z w : bytes_ok z -> extbe_getq z w = extbe_get z w.
Proof.
  intro H. pose proof (byte_at_lt z 0 H). pose proof (byte_at_lt z 1 H). pose proof (byte_at_lt z 2 H).
  destruct w as [|[|[|[|w]]]]; try reflexivity.
  - unfold extbe_getq, extbe_get, ext_copy_be. cbn [of_le]. f_equal. lia.
  - unfold extbe_getq, extbe_get, ext_copy_be. rewrite shl64_byte by lia.
    rewrite lor2 by assumption. cbn [of_le]. f_equal. lia.
  - unfold extbe_getq, extbe_get, ext_copy_be. rewrite !shl64_byte by lia.
    rewrite lor3 by assumption. cbn [of_le]. f_equal. lia.
Qed.

(* ---------------- canonical: one encoding per value ---------------- *)

Lemma ext_put_injective x y : x < two64 -> y < two64 -> ext_put x = ext_put y -> x = y.
Proof.
  intros Hx Hy E. pose proof (external_roundtrip x [] Hx) as A.
  pose proof (external_roundtrip y [] Hy) as B. rewrite E in A. congruence.
Qed.

Lemma extbe_put_injective x y : x < two64 -> y < two64 -> extbe_put x = extbe_put y -> x = y.
Proof.
  intros Hx Hy E. pose proof (externalbe_roundtrip x [] Hx) as A.
  pose proof (externalbe_roundtrip y [] Hy) as B. rewrite E in A. congruence.
Qed.

(* a decodable byte string of length k holding x is never shorter than put x *)
Lemma ext_shortest x bs : x < two64 -> (1 <= length bs <= 8)%nat -> bytes_ok bs ->
  ext_get bs (length bs) = Some x -> (length (ext_put x) <= length bs)%nat.
Proof.
  intros Hx Hl Hb G. rewrite ext_put_length by exact Hx.
  rewrite <- (app_nil_r bs) in G at 1. rewrite ext_get_app in G by exact Hl.
  injection G as G. apply ext_width_minimal; [exact Hx|lia|]. subst x.
  clear Hx Hl. induction Hb as [|b l Hb Hl IH]; [cbn; lia|].
  cbn [of_le length]. rewrite Nat2N.inj_succ, N.pow_succ_r'. lia.
Qed.

(* ext_put / extbe_put are the fixed-width writers at the minimal width (the
   `None => []` arm of their definitions is never taken) *)
Lemma ext_put_as_fixed x : x < two64 ->
  ext_put_fixed x (ext_width x) = Some (ext_put x) /\
  extbe_put_fixed x (ext_width x) = Some (extbe_put x).
Proof. intro H. split; [apply ext_put_defined; exact H|apply extbe_put_defined; exact H]. Qed.

Lemma ext_fixed_domain x w : ~ (1 <= w <= 8)%nat ->
  ext_put_fixed x w = None /\ extbe_put_fixed x w = None.
Proof. intro H. split; [apply ext_put_fixed_none; exact H|apply extbe_put_fixed_none; exact H]. Qed.
