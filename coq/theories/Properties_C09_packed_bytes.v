(* Properties_C09_packed_bytes.v — property C09 (packed bit arrays), module
   packed: the ...Bytes forms (the element count is recomputed from a byte size
   by CountFromStorageBytes and cast to the length type), histories mixing them
   with the element-count forms, and SetIncr outside its precondition.  Nothing
   but statements closed by `exact`, each followed by Print Assumptions.
   Parameters of an instantiation as in Properties_C09_packed.v: w =
   PACK_STORAGE_BITS, S = slot bits, P = promotion type bits (None = not
   defined), V = value type bits, L = length type bits.  Every function returns
   its result together with the list of slot indices it reads or writes, so an
   equation between two calls also says they touch the same slots. *)
Require Import VV.Base VV.Packed VV.PackedSpec VV.PackedRun VV.PackedBytesRun VV.PackedBytesTheorems.
From Coq Require Import Sorted Permutation.
Local Open Scope N_scope.

(* CountFromStorageBytes gives back len exactly for the byte sizes that hold the len * w bits and less than one element more *)
Theorem C09_packed_bytes_count : forall w S P V L compact bytes len,
  let c := (mk_pcfg w S P V L compact) in
  1 <= w -> bytes * 8 < 2 ^ 64 ->
  (packed_count_from_storage_bytes c bytes = len <-> len * w <= bytes * 8 < (len + 1) * w).
Proof. exact packed_bytes_count. Qed.
Print Assumptions C09_packed_bytes_count.

(* the smallest byte size holding len elements, (len * w + 7) / 8, gives back len iff its padding bits are fewer than w; always when w >= 8 or the elements end on a byte boundary *)
Theorem C09_packed_bytes_min_size : forall w S P V L compact len,
  let c := (mk_pcfg w S P V L compact) in
  let bytes := (len * w + 7) / 8 in
  1 <= w -> bytes * 8 < 2 ^ 64 ->
  (packed_count_from_storage_bytes c bytes = len <-> bytes * 8 - len * w < w) /\
  (8 <= w \/ (len * w) mod 8 = 0 -> packed_count_from_storage_bytes c bytes = len).
Proof. exact packed_bytes_min_size. Qed.
Print Assumptions C09_packed_bytes_min_size.

(* every ...Bytes function is its element-count counterpart at (PACKED_LEN_TYPE)CountFromStorageBytes(bytes), for every byte size and every instantiation: same result, same array, same touched slots *)
Theorem C09_packed_bytes_forms_trunc : forall w S P V L compact a bytes,
  let c := (mk_pcfg w S P V L compact) in
  let n := packed_count_from_storage_bytes c bytes mod 2 ^ L in
  (forall v, packed_member_bytes c a bytes v = packed_member c a n v) /\
  (forall v, packed_insert_sorted_bytes c a bytes v = packed_insert_sorted c a n v) /\
  (forall v, packed_delete_member_bytes c a bytes v = packed_delete_member c a n v) /\
  (forall off v, packed_insert_bytes c a bytes off v = packed_insert c a n off v) /\
  (forall off, packed_delete_bytes c a bytes off = packed_delete c a n off).
Proof. exact packed_bytes_forms_trunc. Qed.
Print Assumptions C09_packed_bytes_forms_trunc.

(* for a byte size admissible for len elements (len * w <= 8 bytes < (len + 1) * w, len representable in the length type) CountFromStorageBytes is len and every ...Bytes function is its counterpart at len *)
Theorem C09_packed_bytes_forms : forall w S P V L compact a bytes len,
  let c := (mk_pcfg w S P V L compact) in
  1 <= w -> bytes * 8 < 2 ^ 64 -> len * w <= bytes * 8 < (len + 1) * w -> len < 2 ^ L ->
  packed_count_from_storage_bytes c bytes = len /\
  (forall v, packed_member_bytes c a bytes v = packed_member c a len v) /\
  (forall v, packed_insert_sorted_bytes c a bytes v = packed_insert_sorted c a len v) /\
  (forall v, packed_delete_member_bytes c a bytes v = packed_delete_member c a len v) /\
  (forall off v, packed_insert_bytes c a bytes off v = packed_insert c a len off v) /\
  (forall off, packed_delete_bytes c a bytes off = packed_delete c a len off).
Proof. exact packed_bytes_forms. Qed.
Print Assumptions C09_packed_bytes_forms.

(* what "admissible byte sizes of a history" (mspec_bytes_ok) means, one call at a time: at each ...Bytes call the size b satisfies count * w <= 8 b < (count + 1) * w for the number of elements the reference list holds at that point *)
Theorem C09_packed_bytes_ok_unfold : forall w xs o rest,
  mspec_bytes_ok w xs (o :: rest) <->
  (match o with
   | MCount _ => True
   | MInsertSortedBytes b _ | MDeleteMemberBytes b _ | MMemberBytes b _ =>
       N.of_nat (length xs) * w <= b * 8 < (N.of_nat (length xs) + 1) * w
   end) /\
  mspec_bytes_ok w (fst (spec_step xs (mop_sop o))) rest.
Proof. exact packed_bytes_ok_unfold. Qed.
Print Assumptions C09_packed_bytes_ok_unfold.

(* every history that mixes element-count and ...Bytes forms (admissible byte sizes) runs exactly as the history of its element-count forms, keeps the array equal to the reference sorted list and returns the reference results; storage beyond the cap elements is never modified and only slots of those elements (all inside the array) are accessed *)
Theorem C09_packed_bytes_sorted_history : forall w S P V L compact,
  1 <= w -> w <= 32 -> (S = 8 \/ S = 16 \/ S = 32 \/ S = 64) -> w <= S + N.gcd w S -> w <= V ->
  (forall p, P = Some p -> S <= p /\ w <= p) ->
  forall cap a len xs ops, let c := (mk_pcfg w S P V L compact) in
  cap < 2147483648 -> cap < 2 ^ L -> Forall (fun s => s < 2 ^ S) a -> cap * w <= S * N.of_nat (length a) -> len <= cap ->
  elems c a len = xs -> StronglySorted N.le xs ->
  Forall (fun o => match mop_sop o with SInsertSorted v => v < 2 ^ w | _ => True end) ops ->
  spec_fits (N.to_nat cap) xs (map mop_sop ops) ->
  mspec_bytes_ok w xs ops ->
  exists a' len' t,
    packed_mrun c (a, len) ops = Some (a', len', snd (spec_run xs (map mop_sop ops)), t) /\
    packed_run c (a, len) (map mop_sop ops) = Some (a', len', snd (spec_run xs (map mop_sop ops)), t) /\
    elems c a' len' = fst (spec_run xs (map mop_sop ops)) /\ StronglySorted N.le (fst (spec_run xs (map mop_sop ops))) /\
    length a' = length a /\ Forall (fun s => s < 2 ^ S) a' /\
    (forall n, cap * w <= n -> N.testbit (slot_at a' (n / S)) (n mod S) = N.testbit (slot_at a (n / S)) (n mod S)) /\
    Forall (fun k => k * S < cap * w /\ k < N.of_nat (length a)) t.
Proof. exact packed_bytes_sorted_history. Qed.
Print Assumptions C09_packed_bytes_sorted_history.

(* SetIncr for ANY increment: the value written is val (the truncated sum, or the truncated difference when the truncated sum is below the operand), cast to the promotion type; element i receives its w low bits; its bits from w upwards are OR-ed into the storage bits that follow element i up to the end fin of the last slot element i occupies (so later elements sharing that slot can change); no other storage bit changes; when val fits in w bits nothing but element i changes; the slots accessed are those of element i *)
Theorem C09_packed_incr_any : forall w S P V L compact,
  1 <= w -> w <= 32 -> (S = 8 \/ S = 16 \/ S = 32 \/ S = 64) -> w <= S + N.gcd w S -> w <= V ->
  (forall p, P = Some p -> S <= p /\ w <= p) ->
  forall a i d, let c := (mk_pcfg w S P V L compact) in
  Forall (fun s => s < 2 ^ S) a -> (i * w + w - 1) / S < N.of_nat (length a) -> i < 4294967296 ->
  let cur := fst (packed_get c a i) in
  let sum := Z.to_N ((Z.of_N cur + d) mod 2 ^ Z.of_N V) in
  let val := if sum <? cur then Z.to_N ((Z.of_N cur - d) mod 2 ^ Z.of_N V) else sum in
  let pval := match P with Some p => val mod 2 ^ p | None => val end in
  let fin := ((i * w + w - 1) / S + 1) * S in
  let a' := fst (packed_set_incr c a i d) in
  fst (packed_get c a' i) = pval mod 2 ^ w /\
  (forall n, N.testbit (slot_at a' (n / S)) (n mod S) =
     if (i * w <=? n) && (n <? i * w + w) then N.testbit pval (n - i * w)
     else if (i * w + w <=? n) && (n <? fin) then N.testbit (slot_at a (n / S)) (n mod S) || N.testbit pval (n - i * w)
     else N.testbit (slot_at a (n / S)) (n mod S)) /\
  (forall j, j < 4294967296 -> j < i \/ fin <= j * w -> fst (packed_get c a' j) = fst (packed_get c a j)) /\
  (forall j b, i < j -> j < 4294967296 ->
     N.testbit (fst (packed_get c a' j)) b =
     N.testbit (fst (packed_get c a j)) b || ((b <? w) && (j * w + b <? fin) && N.testbit pval ((j - i) * w + b))) /\
  (val < 2 ^ w -> fst (packed_get c a' i) = val /\
     forall n, ~ (i * w <= n < i * w + w) -> N.testbit (slot_at a' (n / S)) (n mod S) = N.testbit (slot_at a (n / S)) (n mod S)) /\
  (i * w + w <= fin /\ fin < i * w + w + S) /\ val < 2 ^ V /\
  length a' = length a /\ Forall (fun s => s < 2 ^ S) a' /\
  (forall k, In k (snd (packed_set_incr c a i d)) -> (i * w) / S <= k <= (i * w + w - 1) / S).
Proof. exact packed_incr_any. Qed.
Print Assumptions C09_packed_incr_any.

(* the value SetIncr writes, case by case (M = 2^V, x the current element): a non-negative increment adds as long as the sum is below 2^V; one that carries past 2^V SUBTRACTS (modulo 2^V); a negative increment whose result is non-negative ADDS its magnitude (modulo 2^V); a negative increment below zero wraps to x + d + 2^V *)
Theorem C09_packed_incr_value_cases : forall w S P V L compact cur d,
  let c := (mk_pcfg w S P V L compact) in
  cur < 2 ^ V ->
  let M := Z.of_N (2 ^ V) in
  let x := Z.of_N cur in
  let sum := Z.to_N ((x + d) mod 2 ^ Z.of_N V) in
  let val := if sum <? cur then Z.to_N ((x - d) mod 2 ^ Z.of_N V) else sum in
  ((0 <= d)%Z -> (x + d < M)%Z -> val = Z.to_N (x + d)) /\
  ((0 <= d < M)%Z -> (M <= x + d)%Z -> val = Z.to_N ((x - d) mod M)) /\
  ((d < 0)%Z -> (0 <= x + d)%Z -> val = Z.to_N ((x - d) mod M)) /\
  ((- M <= d)%Z -> (x + d < 0)%Z -> val = Z.to_N (x + d + M)).
Proof. exact packed_incr_value_cases. Qed.
Print Assumptions C09_packed_incr_value_cases.

(* non-vacuity.  (1) a mixed history on a compact 3-bit array in uint8_t slots
   filled to its exact capacity of 8: the byte sizes are admissible exactly when
   the padding of the byte size is below 3 bits (element counts 0, 2, 5, 8 at
   the minimal size); the run returns the reference results and touches only
   slots 0..2.  (2) a byte size that does NOT round-trip: one 3-bit element needs
   1 byte, and CountFromStorageBytes(1) is 2.  (3) SetIncr outside its
   precondition, each replayed on the C (12-bit elements, uint32_t slots,
   uint16_t values, elements 4095, 4, 7): +1 on 4095 gives 0 and turns the next
   element 4 into 5; then -1 on that 5 gives 6; then -9 on the 7 (which spans
   slots 0 and 1) gives 4094 and sets the 4 low bits of the element after it. *)
Example C09_example_bytes_history :
  let c := mk_pcfg 3 8 None 8 32 true in
  let ops := [MInsertSortedBytes 0 5; MCount (SInsertSorted 3); MInsertSortedBytes 1 7; MCount (SInsertSorted 3);
              MCount (SInsertSorted 0); MInsertSortedBytes 2 6; MCount (SInsertSorted 1); MCount (SInsertSorted 2);
              MMemberBytes 3 3; MDeleteMemberBytes 3 3; MCount (SSearch 4)] in
  mspec_bytes_ok 3 [] ops /\ spec_fits 8 [] (map mop_sop ops) /\
  spec_run [] (map mop_sop ops) = ([0; 1; 2; 3; 5; 6; 7], [0; 0; 0; 0; 0; 0; 0; 0; 3; 1; 4]%Z) /\
  packed_mrun c ([255; 255; 255], 0) ops = packed_run c ([255; 255; 255], 0) (map mop_sop ops) /\
  match packed_mrun c ([255; 255; 255], 0) ops with
  | Some (a', len', rs, t) => elems c a' len' = [0; 1; 2; 3; 5; 6; 7] /\ rs = [0; 0; 0; 0; 0; 0; 0; 0; 3; 1; 4]%Z /\
                              forallb (fun k => k <? 3) t = true
  | None => False
  end.
Proof.
  split; [cbn; repeat split; discriminate|]. split; [cbn; repeat split; repeat constructor|].
  vm_compute. repeat split; reflexivity.
Qed.

Example C09_example_bytes_no_round_trip :
  let c := mk_pcfg 3 8 None 8 32 true in
  (1 * 3 + 7) / 8 = 1 /\ packed_count_from_storage_bytes c 1 = 2 /\
  packed_member_bytes c [29; 0; 0] 1 3 = packed_member c [29; 0; 0] 2 3 /\
  packed_member_bytes c [29; 0; 0] 1 3 <> packed_member c [29; 0; 0] 1 3.
Proof. vm_compute. repeat split; try reflexivity. intro H; discriminate H. Qed.

Example C09_example_incr_outside :
  let c := mk_pcfg 12 32 None 16 32 false in
  let a0 := fst (packed_set c (fst (packed_set c (fst (packed_set c [0; 0] 0 4095)) 1 4)) 2 7) in
  let a1 := fst (packed_set_incr c a0 0 1) in
  let a2 := fst (packed_set_incr c a1 1 (-1)) in
  let a3 := fst (packed_set_incr c a2 2 (-9)) in
  a0 = [117460991; 0] /\
  (elems c a1 3 = [0; 5; 7] /\ a1 = [117460992; 0]) /\
  elems c a2 3 = [0; 6; 7] /\
  (elems c a3 4 = [0; 6; 4094; 15] /\ a3 = [4261437440; 255]).
Proof. vm_compute. repeat split; reflexivity. Qed.
