(* PFORProofsSize.v — the bytes written against varintPFORSize. *)
Require Import VV.Base VV.BaseProofs VV.Tagged VV.TaggedProofs VV.TaggedSpecProofs
  VV.PFOR VV.PFORSpec VV.PFORLemmas VV.PFORProofs VV.PFORProofsDec.
From Coq Require Import Lia ZifyBool ZifyN ZifyNat.
Local Open Scope N_scope.
Ltac Zify.zify_post_hook ::= Z.div_mod_to_equations.

Lemma excs_bytes_bound m xs : forall i0 count,
  i0 + N.of_nat (length xs) <= count -> count < 18446744073709551616 ->
  N.of_nat (length (pfor_put_excs (pfor_excs m i0 xs)))
  <= N.of_nat (length (pfor_excs m i0 xs)) * (tagged_len count + 9).
Proof.
  induction xs as [|v t IH]; intros i0 count Hc Hc64.
  - cbn [pfor_excs pfor_put_excs length]. lia.
  - cbn [pfor_excs]. cbn [length] in Hc.
    assert (Hc' : i0 + 1 + N.of_nat (length t) <= count) by lia.
    specialize (IH (i0 + 1) count Hc' Hc64).
    destruct (pfor_is_exc _ _ _ v); [|exact IH].
    cbn [pfor_put_excs length]. rewrite !app_length, !tagged_put_length_nat.
    pose proof (tagged_len_mono i0 count ltac:(lia) Hc64).
    pose proof (tagged_len_le9 v).
    rewrite Nat2N.inj_succ, N.mul_succ_l.
    set (C := tagged_len count + 9) in *.
    set (L := N.of_nat (length (pfor_put_excs (pfor_excs m (i0 + 1) t)))) in *.
    rewrite !Nat2N.inj_add, !N2Nat.id. fold L. lia.
Qed.

Lemma excs_bytes_none m xs i0 :
  pfor_excs m i0 xs = [] -> pfor_put_excs (pfor_excs m i0 xs) = [].
Proof. intros ->. reflexivity. Qed.

Section Size.
  Variable m : pfor_meta.
  Variable xs : list N.
  Variable w : nat.
  Hypothesis MO : meta_ok m xs w.
  Hypothesis OK : u64ok xs.
  Hypothesis LEN : N.of_nat (length xs) < 4294967296.

  Let count := N.of_nat (length xs).
  Let ec := N.of_nat (length (pfor_excs m 0 xs)).

  Lemma layout_length :
    N.of_nat (length (pfor_layout m xs))
    = tagged_len (pm_min m) + 1 + tagged_len count + count * N.of_nat w + tagged_len ec
      + N.of_nat (length (pfor_put_excs (pfor_excs m 0 xs))).
  Proof.
    rewrite layout_split.
    rewrite app_length, Nat2N.inj_add, hdr_length.
    rewrite app_length, Nat2N.inj_add, (body_length m xs w MO xs).
    rewrite app_length, Nat2N.inj_add, tagged_put_length.
    unfold pfor_hdr_len. fold count ec. lia.
  Qed.

  Lemma size_unwrapped :
    pfor_size m = tagged_len (pm_min m) + 1 + tagged_len count + count * N.of_nat w + tagged_len ec
                  + ec * (tagged_len count + 9).
  Proof.
    unfold pfor_size. rewrite (mo_count _ _ _ MO), (mo_width _ _ _ MO).
    rewrite <- (ec_is_exc m xs w MO). fold count ec. rewrite tagged_len_max.
    unfold u64. apply N.mod_small.
    pose proof (tagged_len_le9 (pm_min m)). pose proof (tagged_len_le9 count). pose proof (tagged_len_le9 ec).
    pose proof (mo_w _ _ _ MO) as Hw.
    assert (ec <= count) by (subst ec count; pose proof (excs_length_le m 0 xs); lia).
    assert (count * N.of_nat w <= 4294967296 * 8) by (apply N.mul_le_mono; lia).
    assert (ec * (tagged_len count + 9) <= 4294967296 * 18) by (apply N.mul_le_mono; lia).
    lia.
  Qed.

  Theorem layout_size_bound : N.of_nat (length (pfor_layout m xs)) <= pfor_size m.
  Proof.
    rewrite layout_length, size_unwrapped.
    pose proof (excs_bytes_bound m xs 0 count ltac:(subst count; lia) ltac:(subst count; lia)) as B.
    fold ec in B. lia.
  Qed.

  Theorem layout_size_exact : pm_exc m = 0 -> N.of_nat (length (pfor_layout m xs)) = pfor_size m.
  Proof.
    intro E. rewrite layout_length, size_unwrapped.
    assert (E0 : N.of_nat (length (pfor_excs m 0 xs)) = 0).
    { pose proof (ec_is_exc m xs w MO) as Q. cbv zeta in Q. rewrite Q. exact E. }
    assert (Hn : pfor_excs m 0 xs = []).
    { destruct (pfor_excs m 0 xs); [reflexivity|cbn [length] in E0; lia]. }
    clear E0. subst ec. rewrite Hn. cbn [pfor_put_excs length]. lia.
  Qed.
End Size.
