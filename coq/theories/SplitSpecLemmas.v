(* SplitSpecLemmas.v — payload bounds and tactics shared by SplitSpecProofs.v and
   Split16SpecProofs.v. *)
Require Import VV.Base VV.BaseProofs VV.Split VV.SplitSpec VV.SplitLemmas.
From Coq Require Import Lia ZifyBool ZifyN ZifyNat.
Local Open Scope N_scope.
Ltac Zify.zify_post_hook ::= Z.div_mod_to_equations.

Lemma payload_ext rest n : bytes_ok rest -> length rest = n -> of_le rest < 256 ^ N.of_nat n.
Proof. intros H <-. apply of_le_lt. exact H. Qed.
Lemma payload_emb rest n : bytes_ok rest -> length rest = n -> of_be rest < 256 ^ N.of_nat n.
Proof.
  intros H <-. unfold of_be. rewrite <- (rev_length rest). apply of_le_lt. apply bytes_ok_rev. exact H.
Qed.

Ltac step :=
  match goal with
  | |- context [if ?c then Some (mk_level ?a ?b ?n ?d) else _] => destruct c eqn:?E
  end.

Ltac finish_short chain_lemma chain :=
  let EL := fresh "EL" in let EV := fresh "EV" in let HX := fresh "HX" in
  cbv beta iota; cbn [lv_nbytes lv_kind_of lv_base];
  match goal with |- context [(length ?r =? ?n)%nat] => destruct (length r =? n)%nat eqn:EL end;
  [|discriminate]; apply Nat.eqb_eq in EL;
  match goal with |- context [if ?v <=? U64MAX then _ else _] => destruct (v <=? U64MAX) eqn:EV end;
  [|discriminate];
  intro HX; apply some_inj in HX; subst;
  match goal with Hr : bytes_ok ?r |- _ =>
    pose proof (payload_ext r _ Hr EL); pose proof (payload_emb r _ Hr EL) end;
  unfold U64MAX in EV; norm256; rewrite chain_lemma by lia; unfold chain;
  cbn [length]; rewrite EL; kill_ifs; lia.

Ltac finish_den :=
  cbv beta iota; cbn [lv_nbytes lv_kind_of lv_base length];
  rewrite ?length_le_bytes; rewrite ?Nat.eqb_refl; cbn [Nat.eqb]; cbv iota;
  unfold U64MAX, of_be; cbn [rev app of_le]; norm256.

Ltac open_level :=
  let EL := fresh "EL" in let EV := fresh "EV" in let HX := fresh "HX" in
  cbv beta iota; cbn [lv_nbytes lv_kind_of lv_base];
  match goal with |- context [(length ?r =? ?n)%nat] => destruct (length r =? n)%nat eqn:EL end;
  [|discriminate]; apply Nat.eqb_eq in EL;
  match goal with |- context [if ?v <=? U64MAX then _ else _] => destruct (v <=? U64MAX) eqn:EV end;
  [|discriminate];
  intro HX; apply some_inj in HX; unfold U64MAX in EV.

Ltac fin_ext lemma :=
  open_level;
  match goal with H : (?b0 =? _) = true |- _ => apply N.eqb_eq in H; subst b0 end;
  match goal with
  | EL : length ?rest = ?k, Hr : bytes_ok ?rest |- context [split_get_at (?pre ++ _ ++ ?tl) _] =>
      let A := fresh "A" in
      destruct (lemma pre tl k rest) as (A & _); [lia | exact EL | exact Hr | lia |];
      cbn [N.of_nat Pos.of_succ_nat Pos.succ N.add Pos.add] in A; rewrite A;
      cbn [length]; rewrite EL; subst; f_equal; f_equal; lia
  | EL : length ?rest = ?k, Hr : bytes_ok ?rest |- context [split16_get_at (?pre ++ _ ++ ?tl) _] =>
      let A := fresh "A" in
      destruct (lemma pre tl k rest) as (A & _); [lia | exact EL | exact Hr | lia |];
      cbn [N.of_nat Pos.of_succ_nat Pos.succ N.add Pos.add] in A; rewrite A;
      cbn [length]; rewrite EL; subst; f_equal; f_equal; lia
  end.

