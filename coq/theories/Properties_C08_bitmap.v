(* Properties_C08_bitmap.v — C08: the bitmap behaves as a set of 16-bit integers
   under any history.  Statements only; proofs are in BitmapProofs*.v.
   Model: Bitmap.v (bm_* mirror varintBitmap.c function by function, after the
   fix: commits for F24 and F14).  Specification of histories: BitmapSpec.v.
   bm_to_array s (= the sequence produced by the iterator loop, see
   C08_bitmap_iteration) is the abstraction: the ascending list of members. *)
Require Import VV.Base VV.Bitmap VV.BitmapSpec VV.BitmapLemmas VV.BitmapProofs VV.BitmapProofsSer VV.BitmapProofsHist VV.BitmapProofsIter.
From Coq Require Import Sorted.
Local Open Scope N_scope.

(* the representation invariant (array strictly ascending with cardinality = its
   length <= capacity; bitmap bytes with cardinality = popcount; runs non-empty,
   ascending, disjoint, inside 0..65535 with cardinality = sum of lengths) holds
   for a fresh bitmap *)
Theorem C08_bitmap_inv_create : bm_Inv bm_create /\ bm_to_array bm_create = [].
Proof. exact (conj inv_create abs_create). Qed.
Print Assumptions C08_bitmap_inv_create.

(* under the invariant every query answers for the set of members *)
Theorem C08_bitmap_answers : forall s, bm_Inv s ->
  StronglySorted N.lt (bm_to_array s) /\
  (forall x, In x (bm_to_array s) -> x < 65536) /\
  bm_cardinality s = N.of_nat (length (bm_to_array s)) /\
  (bm_is_empty s = true <-> bm_to_array s = []) /\
  (forall v, v < 65536 -> (bm_contains s v = true <-> In v (bm_to_array s))).
Proof. exact answers_sound. Qed.
Print Assumptions C08_bitmap_answers.

Theorem C08_bitmap_add : forall s v, bm_Inv s -> v < 65536 ->
  bm_Inv (fst (bm_add s v)) /\
  (forall x, In x (bm_to_array (fst (bm_add s v))) <-> x = v \/ In x (bm_to_array s)) /\
  (snd (bm_add s v) = true <-> ~ In v (bm_to_array s)).
Proof. exact add_spec. Qed.
Print Assumptions C08_bitmap_add.

Theorem C08_bitmap_remove : forall s v, bm_Inv s -> v < 65536 ->
  bm_Inv (fst (bm_remove s v)) /\
  (forall x, In x (bm_to_array (fst (bm_remove s v))) <-> In x (bm_to_array s) /\ x <> v) /\
  (snd (bm_remove s v) = true <-> In v (bm_to_array s)).
Proof. exact remove_spec. Qed.
Print Assumptions C08_bitmap_remove.

Theorem C08_bitmap_add_range : forall s lo hi, bm_Inv s -> lo < 65536 -> hi < 65536 ->
  bm_Inv (bm_add_range s lo hi) /\
  forall x, In x (bm_to_array (bm_add_range s lo hi)) <-> (lo <= x < hi) \/ In x (bm_to_array s).
Proof. exact add_range_spec. Qed.
Print Assumptions C08_bitmap_add_range.

Theorem C08_bitmap_remove_range : forall s lo hi, bm_Inv s -> lo < 65536 -> hi < 65536 ->
  bm_Inv (bm_remove_range s lo hi) /\
  forall x, In x (bm_to_array (bm_remove_range s lo hi)) <-> In x (bm_to_array s) /\ ~ (lo <= x < hi).
Proof. exact remove_range_spec. Qed.
Print Assumptions C08_bitmap_remove_range.

Theorem C08_bitmap_add_many : forall s vs, bm_Inv s -> (forall v, In v vs -> v < 65536) ->
  bm_Inv (bm_add_many s vs) /\
  forall x, In x (bm_to_array (bm_add_many s vs)) <-> In x vs \/ In x (bm_to_array s).
Proof. exact add_many_spec. Qed.
Print Assumptions C08_bitmap_add_many.

Theorem C08_bitmap_clear_clone_optimize : forall s, bm_Inv s ->
  (bm_Inv (bm_clear s) /\ bm_to_array (bm_clear s) = []) /\ bm_clone s = s /\ bm_optimize s = s.
Proof. exact (fun s H => conj (inv_clear s H) (conj (clone_eq s) eq_refl)). Qed.
Print Assumptions C08_bitmap_clear_clone_optimize.

Theorem C08_bitmap_and : forall a b, bm_Inv a -> bm_Inv b ->
  bm_Inv (bm_and a b) /\ forall x, In x (bm_to_array (bm_and a b)) <-> In x (bm_to_array a) /\ In x (bm_to_array b).
Proof. exact and_spec. Qed.
Print Assumptions C08_bitmap_and.

Theorem C08_bitmap_or : forall a b, bm_Inv a -> bm_Inv b ->
  bm_Inv (bm_or a b) /\ forall x, In x (bm_to_array (bm_or a b)) <-> In x (bm_to_array a) \/ In x (bm_to_array b).
Proof. exact or_spec. Qed.
Print Assumptions C08_bitmap_or.

Theorem C08_bitmap_xor : forall a b, bm_Inv a -> bm_Inv b ->
  bm_Inv (bm_xor a b) /\
  forall x, In x (bm_to_array (bm_xor a b)) <->
            (In x (bm_to_array a) /\ ~ In x (bm_to_array b)) \/ (In x (bm_to_array b) /\ ~ In x (bm_to_array a)).
Proof. exact xor_spec. Qed.
Print Assumptions C08_bitmap_xor.

Theorem C08_bitmap_andnot : forall a b, bm_Inv a -> bm_Inv b ->
  bm_Inv (bm_andnot a b) /\
  forall x, In x (bm_to_array (bm_andnot a b)) <-> In x (bm_to_array a) /\ ~ In x (bm_to_array b).
Proof. exact andnot_spec. Qed.
Print Assumptions C08_bitmap_andnot.

(* deserialising what was serialised (whatever follows it, with any declared
   length that covers it) gives the same set *)
Theorem C08_bitmap_decode_encode : forall s, bm_Inv s -> forall tl len,
  N.of_nat (length (bm_encode s)) <= len ->
  exists s', fst (bm_decode (bm_encode s ++ tl) len) = Some s' /\ bm_Inv s' /\
             bm_to_array s' = bm_to_array s /\ bm_cardinality s' = bm_cardinality s.
Proof. exact decode_encode_app. Qed.
Print Assumptions C08_bitmap_decode_encode.

(* every finite history over a pool of n bitmaps, starting from empty bitmaps:
   after every step the returned flag and Cardinality / IsEmpty / ToArray of
   every bitmap of the pool are those of the same history over sets *)
Theorem C08_bitmap_history_refines : forall n ops, Forall op_wf ops ->
  bm_run (repeat bm_create n) ops = s_run (repeat (fun _ => false) n) ops.
Proof. exact history_refines_from_empty. Qed.
Print Assumptions C08_bitmap_history_refines.

(* a step leaves every bitmap other than its target as it was (operands of the
   binary operations included) *)
Theorem C08_bitmap_operands_unchanged : forall pool o j, op_target o <> Some j ->
  nth j (fst (bm_step pool o)) bm_create = nth j pool bm_create.
Proof. exact operands_unchanged. Qed.
Print Assumptions C08_bitmap_operands_unchanged.

(* the iterator: calling IteratorNext until it returns false (here: `fuel` calls,
   more than the cardinality) yields currentValue = the members in ascending
   order, each once, for every container *)
Theorem C08_bitmap_iteration : forall s fuel, bm_Inv s -> (length (bm_to_array s) < fuel)%nat ->
  bm_iter_run fuel s bm_iter_init = bm_to_array s.
Proof. exact iter_run_all. Qed.
Print Assumptions C08_bitmap_iteration.

(* hypotheses are satisfiable by non-trivial inputs; F24's witness now keeps 7 *)
Example C08_bitmap_f24_witness :
  let s := bm_add_range (fst (bm_add bm_create 7)) 100 6000 in
  bm_contains s 7 = true /\ bm_cardinality s = 5901.
Proof. vm_compute. split; reflexivity. Qed.

Example C08_bitmap_history_example :
  bm_run (repeat bm_create 2) [OAddRange 0 10 5000; OAdd 0 3; ORemove 0 10; OXor 1 0 0; OSerDes 0; OContains 0 4999]
  = s_run (repeat (fun _ => false) 2) [OAddRange 0 10 5000; OAdd 0 3; ORemove 0 10; OXor 1 0 0; OSerDes 0; OContains 0 4999].
Proof. vm_compute. reflexivity. Qed.
