(* Properties_C08_bitmap.v — placeholder, theorems are added below as they are proved *)
Require Import VV.Base VV.Bitmap.
