(* OomSites.v — the allocation-call inventory the skeletons of Oom.v were
   written against: for every function of the library that calls an allocation
   function directly, the calls in source order, and the skeleton that models
   them.  coq/gen/AllocSites.v is regenerated from clang's AST of the current
   sources on every run; Properties_C18_sites.v proves the two equal, so an
   allocation call that is added, removed or reordered anywhere in the library
   invalidates an obligation of C18 until the skeletons are re-examined.
   (Functions that allocate only through these — varintDictEncode, the set
   algebra, varintAdaptiveEncode … — have skeletons composed of the ones
   below.) *)
From Coq Require Import List String.
Import ListNotations.
Local Open Scope string_scope.

Definition oom_sites_expected : list (string * list string) :=
  [
   (* oom_pfor_threshold_k *)
   ("varintPFOR.c:varintPFORComputeThreshold", ["malloc"; "free"]);
   (* oom_pfor_encode_k *)
   ("varintPFOR.c:varintPFOREncode", ["malloc"; "free"]);
   (* oom_dict_create_k *)
   ("varintDict.c:varintDictCreate", ["calloc"; "malloc"; "free"]);
   (* oom_dict_free_k *)
   ("varintDict.c:varintDictFree", ["free"; "free"]);
   (* oom_dict_build_k *)
   ("varintDict.c:varintDictBuild", ["malloc"; "free"; "realloc"; "free"; "free"]);
   (* oom_dict_decode_skel (well-formed stream; the error exits free what they hold) *)
   ("varintDict.c:varintDictDecode", ["malloc"; "free"; "free"; "free"; "malloc"; "free"; "free"; "free"; "free"]);
   (* oom_dict_decode_into_k *)
   ("varintDict.c:varintDictDecodeInto", ["malloc"; "free"; "free"; "free"; "free"; "free"; "free"]);
   (* oom_float4_k / oom_float_encode_skel *)
   ("varintFloat.c:varintFloatEncode", ["malloc"; "malloc"; "malloc"; "malloc"; "free"; "free"; "free"; "free"; "free"; "free"; "free"; "free"]);
   (* oom_float4_k / oom_float_decode_skel *)
   ("varintFloat.c:varintFloatDecode", ["malloc"; "malloc"; "malloc"; "malloc"; "free"; "free"; "free"; "free"; "free"; "free"; "free"; "free"; "malloc"; "free"; "free"; "free"; "free"; "free"; "free"; "free"; "free"; "free"]);
   (* oom_adp_unique_k *)
   ("varintAdaptive.c:varintAdaptiveCountUnique", ["malloc"; "free"; "malloc"; "free"]);
   (* oom_adp_encode_with_k *)
   ("varintAdaptive.c:varintAdaptiveEncodeWith", ["malloc"; "free"]);
   (* oom_adp_decode_skel *)
   ("varintAdaptive.c:varintAdaptiveDecode", ["malloc"; "free"]);
   (* inside oom_bm_add_k *)
   ("varintBitmap.c:arrayToBitmap_", ["calloc"; "free"]);
   (* inside oom_bm_remove_k *)
   ("varintBitmap.c:bitmapToArray_", ["malloc"; "free"]);
   (* inside oom_bm_add_k *)
   ("varintBitmap.c:arrayEnsureCapacity_", ["realloc"]);
   (* oom_bm_create_k *)
   ("varintBitmap.c:varintBitmapCreate", ["calloc"; "malloc"; "free"]);
   (* oom_bm_free_k *)
   ("varintBitmap.c:varintBitmapFree", ["free"; "free"; "free"; "free"]);
   (* oom_bm_clone_k *)
   ("varintBitmap.c:varintBitmapClone", ["malloc"; "malloc"; "free"; "malloc"; "free"; "malloc"; "free"]);
   (* oom_bm_add_k *)
   ("varintBitmap.c:varintBitmapAdd", ["calloc"; "free"; "malloc"; "free"]);
   (* oom_bm_remove_k / oom_bm_remove_nr_k *)
   ("varintBitmap.c:varintBitmapRemove", ["calloc"; "free"; "malloc"; "free"]);
   (* oom_bm_decode_k *)
   ("varintBitmap.c:varintBitmapDecode", ["malloc"; "free"; "malloc"; "free"; "free"; "malloc"; "free"; "free"; "free"; "malloc"; "free"]);
   (* oom_bm_add_range_skel *)
   ("varintBitmap.c:varintBitmapAddRange", ["malloc"; "free"; "free"; "free"])
  ].

(* translation units without any allocation call *)
Definition oom_alloc_free_units_expected : list string :=
  ["varintExternal.c"; "varintExternalBigEndian.c"; "varintChained.c"; "varintChainedSimple.c"; "varintTagged.c";
   "varintDimension.c"; "varintDelta.c"; "varintFOR.c"; "varintGroup.c"; "varintRLE.c"; "varintElias.c"; "varintBP128.c"].
