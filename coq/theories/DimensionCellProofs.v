(* DimensionCellProofs.v — matrix cells behind a dimension-pair header:
   entry offset, write/read, frame (other cells, header bytes, every other
   byte), bit cells, toggle. *)
Require Import VV.Base VV.BaseProofs VV.Bitstream VV.BitstreamLemmas VV.Dimension VV.DimensionProofs.
From Coq Require Import Lia ZifyBool ZifyN ZifyNat.
Local Open Scope N_scope.
Ltac Zify.zify_post_hook ::= Z.div_mod_to_equations.

(* ------------------------------------------------------------- lists *)

Lemma nth_skipn_ {A} (l : list A) o j d : nth j (skipn o l) d = nth (o + j) l d.
Proof.
  revert l. induction o as [|o IH]; intro l; [reflexivity|].
  destruct l as [|a l]; [destruct j; reflexivity|]. cbn [skipn Nat.add nth]. apply IH.
Qed.

Lemma nth_firstn_ {A} (l : list A) k j d : (j < k)%nat -> nth j (firstn k l) d = nth j l d.
Proof.
  revert l j. induction k as [|k IH]; intros l j H; [lia|].
  destruct l as [|a l]; [reflexivity|]. destruct j as [|j]; [reflexivity|].
  cbn [firstn nth]. apply IH. lia.
Qed.

Lemma length_store buf off bs :
  (off + length bs <= length buf)%nat -> length (store buf off bs) = length buf.
Proof.
  intro H. unfold store. rewrite !app_length, firstn_length, skipn_length. lia.
Qed.

Lemma nth_store buf off bs i d :
  (off + length bs <= length buf)%nat ->
  nth i (store buf off bs) d =
  if ((off <=? i) && (i <? off + length bs))%nat then nth (i - off) bs d else nth i buf d.
Proof.
  intro H. unfold store.
  assert (Lf : length (firstn off buf) = off) by (rewrite firstn_length; lia).
  destruct (Nat.leb_spec off i) as [A|A]; cbn [andb].
  - rewrite app_nth2 by lia. rewrite Lf.
    destruct (Nat.ltb_spec i (off + length bs)) as [B|B].
    + apply app_nth1. lia.
    + rewrite app_nth2 by lia. rewrite nth_skipn_. f_equal. lia.
  - rewrite app_nth1 by lia. apply nth_firstn_. exact A.
Qed.

(* a window of the buffer after a store that covers it exactly *)
Lemma window_store_same buf off bs :
  (off + length bs <= length buf)%nat ->
  firstn (length bs) (skipn off (store buf off bs)) = bs.
Proof.
  intro H. apply nth_ext with (d := 0) (d' := 0).
  - rewrite firstn_length, skipn_length, length_store by exact H. lia.
  - intros j Hj. rewrite firstn_length, skipn_length, length_store in Hj by exact H.
    rewrite nth_firstn_ by lia. rewrite nth_skipn_, nth_store by exact H.
    replace ((off <=? off + j) && (off + j <? off + length bs))%nat with true by lia.
    f_equal. lia.
Qed.

(* a window disjoint from the stored range *)
Lemma window_store_other buf off bs o k :
  (off + length bs <= length buf)%nat -> (o + k <= length buf)%nat ->
  (o + k <= off \/ off + length bs <= o)%nat ->
  firstn k (skipn o (store buf off bs)) = firstn k (skipn o buf).
Proof.
  intros H Ho Hd. apply nth_ext with (d := 0) (d' := 0).
  - rewrite !firstn_length, !skipn_length, length_store by exact H. reflexivity.
  - intros j Hj. rewrite firstn_length, skipn_length, length_store in Hj by exact H.
    rewrite !nth_firstn_ by lia. rewrite !nth_skipn_, nth_store by exact H.
    replace ((off <=? o + j) && (o + j <? off + length bs))%nat with false by lia.
    reflexivity.
Qed.

Lemma firstn_store_before buf off bs h :
  (off + length bs <= length buf)%nat -> (h <= off)%nat ->
  firstn h (store buf off bs) = firstn h buf.
Proof.
  intros H Hh. pose proof (window_store_other buf off bs 0 h H ltac:(lia) ltac:(lia)) as W.
  exact W.
Qed.

(* ------------------------------------------------------------- arithmetic *)

Definition nrows (rows : N) : N := if rows =? 0 then 1 else rows.

Lemma cell_index_bound rows cols row col :
  row < nrows rows -> col < cols -> row * cols + col + 1 <= nrows rows * cols.
Proof.
  intros Hr Hc. assert ((row + 1) * cols <= nrows rows * cols) by (apply N.mul_le_mono_r; lia). lia.
Qed.

Lemma cell_index_inj cols row col row' col' :
  col < cols -> col' < cols -> row * cols + col = row' * cols + col' -> row = row' /\ col = col'.
Proof.
  intros Hc Hc' E.
  assert (R : row = row').
  { rewrite (N.div_unique (cols * row + col) cols row col Hc eq_refl).
    rewrite (N.div_unique (cols * row' + col') cols row' col' Hc' eq_refl).
    f_equal. lia. }
  subst row'. split; [reflexivity|lia].
Qed.

Lemma mul_succ_le a b w : a + 1 <= b -> a * w + w <= b * w.
Proof. intro H. assert ((a + 1) * w <= b * w) by (apply N.mul_le_mono_r; exact H). lia. Qed.

Lemma mul64_small a b : a * b < 18446744073709551616 -> mul64 a b = a * b.
Proof. intro H. unfold mul64. apply N.mod_small. exact H. Qed.
Lemma add64_small a b : a + b < 18446744073709551616 -> add64 a b = a + b.
Proof. intro H. unfold add64. apply N.mod_small. exact H. Qed.

(* ------------------------------------------------------------- the matrix *)

(* `buf` is a matrix buffer for (rows, cols): the header written by
   varintDimensionPairEncode followed by cell storage *)
Definition is_matrix (buf : list N) (rows cols dim : N) (hdr : list N) : Prop :=
  rows < 18446744073709551616 /\ 1 <= cols /\ cols < 18446744073709551616 /\
  pair_encode rows cols = Some (dim, hdr) /\ firstn (length hdr) buf = hdr /\
  (length hdr <= length buf)%nat /\ N.of_nat (length buf) < 18446744073709551616.

Lemma is_matrix_split buf rows cols dim hdr :
  is_matrix buf rows cols dim hdr -> buf = hdr ++ skipn (length hdr) buf.
Proof. intros (_ & _ & _ & _ & F & _). rewrite <- F at 1. symmetry. rewrite F. rewrite <- F at 1. apply firstn_skipn. Qed.

Lemma is_matrix_facts buf rows cols dim hdr :
  is_matrix buf rows cols dim hdr ->
  dim = pair_dimension rows cols /\
  pair_decode buf dim = Some (rows, cols) /\
  pair_row_count dim = need_rows rows /\ pair_col_count dim = need_cols cols /\
  N.of_nat (length hdr) = need_rows rows + need_cols cols /\
  need_rows rows <= 8 /\ 1 <= need_cols cols /\ need_cols cols <= 8 /\
  hdr = le_bytes (N.to_nat (need_rows rows)) rows ++ le_bytes (N.to_nat (need_cols cols)) cols.
Proof.
  intro M. pose proof (is_matrix_split _ _ _ _ _ M) as S.
  destruct M as (Hr & Hc1 & Hc & E & F & L & B).
  destruct (pair_roundtrip rows cols Hr Hc1 Hc) as (h & E' & Eh & Len & BL & Dec).
  rewrite E in E'. injection E' as -> ->.
  destruct (pair_dimension_fields rows cols Hr Hc1 Hc) as (Fr & Fc & _).
  destruct (need_rows_range rows Hr) as (R8 & _ & _).
  destruct (need_cols_range cols Hc) as (C1 & C8 & _).
  split; [reflexivity|]. split; [rewrite S; apply Dec|].
  split; [exact Fr|]. split; [exact Fc|]. split; [rewrite Len, BL; reflexivity|].
  repeat split; assumption.
Qed.

(* getEntryByteOffset computes header length + (row*cols + col) * width
   whenever the cell lies in a matrix that fits the buffer *)
Lemma entry_offset_val buf rows cols dim hdr row col w :
  is_matrix buf rows cols dim hdr ->
  row < nrows rows -> col < cols -> 1 <= w ->
  N.of_nat (length hdr) + nrows rows * cols * w <= N.of_nat (length buf) ->
  entry_offset buf row col w dim = Some (N.of_nat (length hdr) + (row * cols + col) * w) /\
  N.of_nat (length hdr) + (row * cols + col) * w + w <= N.of_nat (length buf).
Proof.
  intros M Hrow Hcol Hw Hfit.
  destruct (is_matrix_facts _ _ _ _ _ M) as (Ed & Dec & Fr & Fc & HL & R8 & C1 & C8 & _).
  destruct M as (_ & _ & _ & _ & _ & _ & B).
  pose proof (cell_index_bound rows cols row col Hrow Hcol) as I1.
  pose proof (mul_succ_le (row * cols + col) (nrows rows * cols) w I1) as I2.
  assert (I3 : row * cols <= (row * cols + col) * w).
  { assert ((row * cols + col) * 1 <= (row * cols + col) * w) by (apply N.mul_le_mono_l; lia). lia. }
  assert (I4 : row * cols + col <= (row * cols + col) * w).
  { assert ((row * cols + col) * 1 <= (row * cols + col) * w) by (apply N.mul_le_mono_l; lia). lia. }
  split; [|lia].
  unfold entry_offset. unfold pair_byte_length. rewrite Fr, Fc.
  assert (U : u8 (need_rows rows + need_cols cols) = N.of_nat (length hdr)).
  { unfold u8. rewrite <- HL. apply N.mod_small. lia. }
  rewrite U.
  destruct (N.eqb_spec row 0) as [->|Nz].
  - rewrite N.mul_0_l, N.add_0_l in *. rewrite mul64_small by lia. rewrite add64_small by lia. reflexivity.
  - rewrite Dec.
    rewrite (mul64_small row cols) by lia.
    rewrite (add64_small (row * cols) col) by lia.
    rewrite mul64_small by lia. rewrite add64_small by lia. reflexivity.
Qed.

Lemma is_matrix_store buf rows cols dim hdr off bs :
  is_matrix buf rows cols dim hdr ->
  (off + length bs <= length buf)%nat -> (length hdr <= off)%nat ->
  is_matrix (store buf off bs) rows cols dim hdr.
Proof.
  intros (Hr & Hc1 & Hc & E & F & L & B) H Hh.
  unfold is_matrix. rewrite length_store by exact H.
  repeat split; try assumption.
  rewrite firstn_store_before by assumption. exact F.
Qed.

Lemma rd_bytes_some buf off w :
  off + w <= N.of_nat (length buf) ->
  rd_bytes buf off w = Some (firstn (N.to_nat w) (skipn (N.to_nat off) buf)).
Proof. intro H. unfold rd_bytes. replace (off + w <=? N.of_nat (length buf)) with true by lia. reflexivity. Qed.

Lemma wr_bytes_some buf off bs :
  off + N.of_nat (length bs) <= N.of_nat (length buf) ->
  wr_bytes buf off bs = Some (store buf (N.to_nat off) bs).
Proof. intro H. unfold wr_bytes. replace (off + N.of_nat (length bs) <=? N.of_nat (length buf)) with true by lia. reflexivity. Qed.

(* generic cell write: k-byte little-endian store of v at the cell *)
Lemma cell_write_generic buf rows cols dim hdr row col w v :
  is_matrix buf rows cols dim hdr ->
  row < nrows rows -> col < cols -> 1 <= w -> w <= 8 ->
  N.of_nat (length hdr) + nrows rows * cols * w <= N.of_nat (length buf) ->
  v < 256 ^ w ->
  let off := N.of_nat (length hdr) + (row * cols + col) * w in
  let buf' := store buf (N.to_nat off) (le_bytes (N.to_nat w) v) in
  entry_offset buf row col w dim = Some off /\
  wr_bytes buf off (le_bytes (N.to_nat w) v) = Some buf' /\
  is_matrix buf' rows cols dim hdr /\ length buf' = length buf /\
  entry_offset buf' row col w dim = Some off /\
  rd_bytes buf' off w = Some (le_bytes (N.to_nat w) v) /\
  of_le (le_bytes (N.to_nat w) v) = v /\
  (forall i, ~ (off <= N.of_nat i < off + w) -> nth i buf' 0 = nth i buf 0) /\
  (forall row' col', row' < nrows rows -> col' < cols -> (row', col') <> (row, col) ->
     exists off', entry_offset buf' row' col' w dim = Some off' /\
                  entry_offset buf row' col' w dim = Some off' /\
                  off' + w <= N.of_nat (length buf) /\
                  rd_bytes buf' off' w = rd_bytes buf off' w).
Proof.
  intros M Hrow Hcol Hw1 Hw8 Hfit Hv off buf'.
  destruct (entry_offset_val _ _ _ _ _ row col w M Hrow Hcol Hw1 Hfit) as [EO Hin]. fold off in EO, Hin.
  set (bs := le_bytes (N.to_nat w) v) in *.
  assert (Lbs : length bs = N.to_nat w) by (unfold bs; apply length_le_bytes).
  assert (Hst : (N.to_nat off + length bs <= length buf)%nat) by lia.
  assert (Hh : (length hdr <= N.to_nat off)%nat) by (unfold off; lia).
  pose proof (is_matrix_store _ _ _ _ _ _ bs M Hst Hh) as M'. fold buf' in M'.
  assert (Len : length buf' = length buf) by (apply length_store; exact Hst).
  split; [exact EO|].
  split; [apply wr_bytes_some; lia|].
  split; [exact M'|]. split; [exact Len|].
  split.
  { destruct (entry_offset_val _ _ _ _ _ row col w M' Hrow Hcol Hw1) as [EO' _]; [rewrite Len; exact Hfit|exact EO']. }
  split.
  { rewrite rd_bytes_some by (rewrite Len; lia). f_equal.
    rewrite <- Lbs. apply window_store_same. exact Hst. }
  split.
  { unfold bs. rewrite of_le_le_bytes. rewrite N2Nat.id. apply N.mod_small. exact Hv. }
  split.
  { intros i Hi. unfold buf'. rewrite nth_store by exact Hst.
    replace ((N.to_nat off <=? i) && (i <? N.to_nat off + length bs))%nat with false; [reflexivity|].
    symmetry. apply andb_false_iff.
    destruct (Nat.leb_spec (N.to_nat off) i); [right|left; reflexivity].
    apply Nat.ltb_ge. lia. }
  intros row' col' Hrow' Hcol' Hne.
  destruct (entry_offset_val _ _ _ _ _ row' col' w M Hrow' Hcol' Hw1 Hfit) as [EO1 Hin1].
  destruct (entry_offset_val _ _ _ _ _ row' col' w M' Hrow' Hcol' Hw1) as [EO2 _]; [rewrite Len; exact Hfit|].
  set (off' := N.of_nat (length hdr) + (row' * cols + col') * w) in *.
  exists off'. split; [exact EO2|]. split; [exact EO1|]. split; [exact Hin1|].
  rewrite !rd_bytes_some by (rewrite ?Len; lia). f_equal.
  apply window_store_other; [exact Hst|lia|].
  (* the two cells are different, so their byte ranges are disjoint *)
  assert (Hidx : row' * cols + col' <> row * cols + col).
  { intro E. destruct (cell_index_inj cols row' col' row col Hcol' Hcol E) as [-> ->]. apply Hne. reflexivity. }
  destruct (N.lt_ge_cases (row' * cols + col') (row * cols + col)) as [Lt|Ge].
  - left. pose proof (mul_succ_le (row' * cols + col') (row * cols + col) w ltac:(lia)). unfold off, off'. lia.
  - right. pose proof (mul_succ_le (row * cols + col) (row' * cols + col') w ltac:(lia)). unfold off, off'. lia.
Qed.

(* ------------------------------------------------------------- unsigned entries *)

Theorem cell_unsigned buf rows cols dim hdr row col w v :
  is_matrix buf rows cols dim hdr ->
  row < nrows rows -> col < cols -> 1 <= w -> w <= 8 ->
  N.of_nat (length hdr) + nrows rows * cols * w <= N.of_nat (length buf) ->
  v < 256 ^ w ->
  exists buf',
    entry_set_unsigned buf row col v w dim = Some buf' /\
    is_matrix buf' rows cols dim hdr /\ length buf' = length buf /\
    entry_get_unsigned buf' row col w dim = Some v /\
    (forall i, ~ (N.of_nat (length hdr) + (row * cols + col) * w <= N.of_nat i
                  < N.of_nat (length hdr) + (row * cols + col) * w + w) ->
               nth i buf' 0 = nth i buf 0) /\
    (forall row' col', row' < nrows rows -> col' < cols -> (row', col') <> (row, col) ->
       entry_get_unsigned buf' row' col' w dim = entry_get_unsigned buf row' col' w dim).
Proof.
  intros M Hrow Hcol Hw1 Hw8 Hfit Hv.
  destruct (cell_write_generic _ _ _ _ _ row col w v M Hrow Hcol Hw1 Hw8 Hfit Hv)
    as (EO & WR & M' & Len & EO' & RD & OL & FR & OTH).
  eexists. split.
  { unfold entry_set_unsigned. rewrite EO. unfold dim_ext_put_fixed.
    replace ((1 <=? w) && (w <=? 8)) with true by lia. exact WR. }
  split; [exact M'|]. split; [exact Len|].
  split.
  { unfold entry_get_unsigned. rewrite EO'. unfold dim_ext_get.
    replace ((1 <=? w) && (w <=? 8)) with true by lia. rewrite RD, OL. reflexivity. }
  split; [exact FR|].
  intros row' col' Hr' Hc' Hne. destruct (OTH row' col' Hr' Hc' Hne) as (off' & E2 & E1 & _ & R).
  unfold entry_get_unsigned. rewrite E1, E2. unfold dim_ext_get. rewrite R. reflexivity.
Qed.

(* ------------------------------------------------------------- raw 2/4/8-byte entries
   (half / float / double as bit patterns) *)

Theorem cell_raw k buf rows cols dim hdr row col bits :
  is_matrix buf rows cols dim hdr ->
  row < nrows rows -> col < cols -> 1 <= k -> k <= 8 ->
  N.of_nat (length hdr) + nrows rows * cols * k <= N.of_nat (length buf) ->
  bits < 256 ^ k ->
  exists buf',
    entry_set_raw k buf row col bits dim = Some buf' /\
    is_matrix buf' rows cols dim hdr /\ length buf' = length buf /\
    entry_get_raw k buf' row col dim = Some bits /\
    (forall i, ~ (N.of_nat (length hdr) + (row * cols + col) * k <= N.of_nat i
                  < N.of_nat (length hdr) + (row * cols + col) * k + k) ->
               nth i buf' 0 = nth i buf 0) /\
    (forall row' col', row' < nrows rows -> col' < cols -> (row', col') <> (row, col) ->
       entry_get_raw k buf' row' col' dim = entry_get_raw k buf row' col' dim).
Proof.
  intros M Hrow Hcol Hw1 Hw8 Hfit Hv.
  destruct (cell_write_generic _ _ _ _ _ row col k bits M Hrow Hcol Hw1 Hw8 Hfit Hv)
    as (EO & WR & M' & Len & EO' & RD & OL & FR & OTH).
  eexists. split.
  { unfold entry_set_raw. rewrite EO. exact WR. }
  split; [exact M'|]. split; [exact Len|].
  split.
  { unfold entry_get_raw. rewrite EO', RD, OL. reflexivity. }
  split; [exact FR|].
  intros row' col' Hr' Hc' Hne. destruct (OTH row' col' Hr' Hc' Hne) as (off' & E2 & E1 & _ & R).
  unfold entry_get_raw. rewrite E1, E2, R. reflexivity.
Qed.

(* ------------------------------------------------------------- bit cells *)

Lemma tb_one j : N.testbit 1 j = (j =? 0).
Proof.
  destruct (N.eqb_spec j 0) as [->|H]; [reflexivity|].
  change 1 with (2 ^ 0). apply N.pow2_bits_false. lia.
Qed.

Lemma tb_u8 x j : N.testbit (u8 x) j = (j <? 8) && N.testbit x j.
Proof.
  unfold u8. change 256 with (2 ^ 8).
  destruct (N.ltb_spec j 8) as [L|L]; cbn [andb].
  - apply N.mod_pow2_bits_low. exact L.
  - apply N.mod_pow2_bits_high. exact L.
Qed.

(* (b >> k) & 1, compared with 1, is bit k of b *)
Lemma bitval_testbit b k : (N.land (N.shiftr b k) 1 =? 1) = N.testbit b k.
Proof.
  rewrite N.testbit_eqb, N.shiftr_div_pow2. change 1 with (N.ones 1) at 1.
  rewrite N.land_ones. reflexivity.
Qed.

Lemma rd_byte_val buf ob :
  ob < N.of_nat (length buf) -> rd_byte buf ob = Some (nth (N.to_nat ob) buf 0).
Proof.
  intro H. unfold rd_byte. rewrite rd_bytes_some by lia.
  change (N.to_nat 1) with 1%nat.
  pose proof (nth_skipn_ buf (N.to_nat ob) 0 0) as E. rewrite Nat.add_0_r in E. rewrite <- E.
  destruct (skipn (N.to_nat ob) buf) as [|a l] eqn:S.
  - exfalso. pose proof (skipn_length (N.to_nat ob) buf) as L. rewrite S in L. cbn [length] in L. lia.
  - cbn [firstn of_le nth]. f_equal. lia.
Qed.

Lemma pair_decode_cols buf dim rows cols :
  pair_decode buf dim = Some (rows, cols) ->
  dim_ext_get buf (pair_row_count dim) (pair_col_count dim) = Some cols.
Proof.
  unfold pair_decode.
  destruct (if pair_row_count dim =? 0 then Some 0 else dim_ext_get buf 0 (pair_row_count dim)); [|discriminate].
  destruct (dim_ext_get buf (pair_row_count dim) (pair_col_count dim)); [|discriminate].
  intro H; injection H as _ ->. reflexivity.
Qed.

(* _bitOffsets: byte = header length + t/8, bit = t mod 8, t = row*cols+col *)
Lemma bit_offsets_val buf rows cols dim hdr row col :
  is_matrix buf rows cols dim hdr ->
  row < nrows rows -> col < cols ->
  nrows rows * cols < 18446744073709551616 ->
  N.of_nat (length hdr) + (nrows rows * cols + 7) / 8 <= N.of_nat (length buf) ->
  bit_offsets buf row col dim =
    Some (N.of_nat (length hdr) + (row * cols + col) / 8, (row * cols + col) mod 8) /\
  N.of_nat (length hdr) + (row * cols + col) / 8 < N.of_nat (length buf).
Proof.
  intros M Hrow Hcol Hsz Hfit.
  destruct (is_matrix_facts _ _ _ _ _ M) as (Ed & Dec & Fr & Fc & HL & R8 & C1 & C8 & _).
  destruct M as (_ & _ & _ & _ & _ & _ & B).
  pose proof (cell_index_bound rows cols row col Hrow Hcol) as I1.
  set (t := row * cols + col) in *.
  split; [|lia].
  unfold bit_offsets. rewrite Fr, Fc.
  assert (U : u8 (need_rows rows + need_cols cols) = N.of_nat (length hdr)).
  { unfold u8. rewrite <- HL. apply N.mod_small. lia. }
  rewrite U.
  destruct (N.eqb_spec row 0) as [Z|Nz].
  - assert (Et : t = col) by (unfold t; rewrite Z; lia). rewrite <- Et.
    rewrite add64_small by lia. reflexivity.
  - rewrite <- Fr, <- Fc. rewrite (pair_decode_cols _ _ _ _ Dec).
    assert (row * cols <= t) by (unfold t; lia).
    rewrite (mul64_small row cols) by lia.
    rewrite (add64_small (row * cols) col) by (fold t; lia). fold t.
    rewrite add64_small by lia. reflexivity.
Qed.

(* a one-byte read-modify-write of the cell's byte that changes at most the
   cell's bit *)
Lemma cell_bit_generic buf rows cols dim hdr row col (f : N -> N) :
  is_matrix buf rows cols dim hdr ->
  row < nrows rows -> col < cols ->
  nrows rows * cols < 18446744073709551616 ->
  N.of_nat (length hdr) + (nrows rows * cols + 7) / 8 <= N.of_nat (length buf) ->
  (forall b j, j < 8 -> j <> (row * cols + col) mod 8 -> N.testbit (f b) j = N.testbit b j) ->
  let ob := N.of_nat (length hdr) + (row * cols + col) / 8 in
  let obit := (row * cols + col) mod 8 in
  let old := nth (N.to_nat ob) buf 0 in
  let buf' := store buf (N.to_nat ob) [f old] in
  bit_offsets buf row col dim = Some (ob, obit) /\
  rd_byte buf ob = Some old /\
  wr_bytes buf ob [f old] = Some buf' /\
  is_matrix buf' rows cols dim hdr /\ length buf' = length buf /\
  entry_get_bit buf row col dim = Some (N.testbit old obit) /\
  entry_get_bit buf' row col dim = Some (N.testbit (f old) obit) /\
  (forall i, i <> N.to_nat ob -> nth i buf' 0 = nth i buf 0) /\
  (forall j, j < 8 -> j <> obit -> N.testbit (nth (N.to_nat ob) buf' 0) j = N.testbit old j) /\
  (forall row' col', row' < nrows rows -> col' < cols -> (row', col') <> (row, col) ->
     entry_get_bit buf' row' col' dim = entry_get_bit buf row' col' dim).
Proof.
  intros M Hrow Hcol Hsz Hfit Hf ob obit old buf'.
  destruct (bit_offsets_val _ _ _ _ _ row col M Hrow Hcol Hsz Hfit) as [BO Hin].
  fold ob in BO, Hin. fold obit in BO.
  assert (Hst : (N.to_nat ob + length [f old] <= length buf)%nat) by (cbn [length]; lia).
  assert (Hh : (length hdr <= N.to_nat ob)%nat) by (unfold ob; lia).
  pose proof (is_matrix_store _ _ _ _ _ _ [f old] M Hst Hh) as M'. fold buf' in M'.
  assert (Len : length buf' = length buf) by (apply length_store; exact Hst).
  assert (Nsame : nth (N.to_nat ob) buf' 0 = f old).
  { unfold buf'. rewrite nth_store by exact Hst. cbn [length].
    replace ((N.to_nat ob <=? N.to_nat ob) && (N.to_nat ob <? N.to_nat ob + 1))%nat with true by lia.
    rewrite Nat.sub_diag. reflexivity. }
  assert (Nother : forall i, i <> N.to_nat ob -> nth i buf' 0 = nth i buf 0).
  { intros i Hi. unfold buf'. rewrite nth_store by exact Hst. cbn [length].
    replace ((N.to_nat ob <=? i) && (i <? N.to_nat ob + 1))%nat with false by lia. reflexivity. }
  split; [exact BO|]. split; [apply rd_byte_val; exact Hin|].
  split; [apply wr_bytes_some; cbn [length]; lia|].
  split; [exact M'|]. split; [exact Len|].
  split.
  { unfold entry_get_bit. rewrite BO, (rd_byte_val buf ob Hin). fold old. rewrite bitval_testbit. reflexivity. }
  split.
  { destruct (bit_offsets_val _ _ _ _ _ row col M' Hrow Hcol Hsz) as [BO' _]; [rewrite Len; exact Hfit|].
    fold ob obit in BO'. unfold entry_get_bit. rewrite BO', (rd_byte_val buf' ob) by (rewrite Len; exact Hin).
    rewrite Nsame, bitval_testbit. reflexivity. }
  split; [exact Nother|].
  split; [intros j Hj Hne; rewrite Nsame; apply Hf; assumption|].
  intros row' col' Hrow' Hcol' Hne.
  destruct (bit_offsets_val _ _ _ _ _ row' col' M Hrow' Hcol' Hsz Hfit) as [BO1 Hin1].
  destruct (bit_offsets_val _ _ _ _ _ row' col' M' Hrow' Hcol' Hsz) as [BO2 _]; [rewrite Len; exact Hfit|].
  unfold entry_get_bit. rewrite BO1, BO2.
  set (t' := row' * cols + col') in *. set (t := row * cols + col) in *.
  set (ob' := N.of_nat (length hdr) + t' / 8) in *.
  rewrite (rd_byte_val buf ob' Hin1), (rd_byte_val buf' ob') by (rewrite Len; exact Hin1).
  rewrite !bitval_testbit. f_equal.
  assert (Hidx : t' <> t).
  { intro E. destruct (cell_index_inj cols row' col' row col Hcol' Hcol E) as [-> ->]. apply Hne. reflexivity. }
  destruct (N.eq_dec ob' ob) as [Eo|No].
  - rewrite Eo, Nsame. fold old. apply Hf; [apply N.mod_lt; lia|].
    unfold ob', ob in Eo. fold obit. unfold obit. lia.
  - rewrite Nother by lia. reflexivity.
Qed.

(* the byte SetBit stores *)
Definition setbit_byte (obit : N) (b : bool) (old : N) : N :=
  u8 (N.lor (N.ldiff old (N.shiftl 1 obit)) (N.shiftl (if b then 1 else 0) obit)).
(* the byte ToggleBit stores *)
Definition toggle_byte (obit : N) (old : N) : N := u8 (N.lxor old (N.shiftl 1 obit)).

Lemma tb_setbit_byte obit b old j : obit < 8 -> j < 8 ->
  N.testbit (setbit_byte obit b old) j = if j =? obit then b else N.testbit old j.
Proof.
  intros Ho Hj. unfold setbit_byte. rewrite tb_u8, N.lor_spec, N.ldiff_spec, !tb_shiftl.
  replace (j <? 8) with true by lia. cbn [andb].
  destruct (N.eqb_spec j obit) as [->|Ne].
  - replace (obit <=? obit) with true by lia. rewrite N.sub_diag. cbn [andb].
    change (N.testbit 1 0) with true. cbn [negb]. rewrite andb_false_r. cbn [orb].
    destruct b; [reflexivity|apply N.bits_0].
  - destruct (N.leb_spec obit j) as [L|L]; cbn [andb].
    + rewrite tb_one. replace (j - obit =? 0) with false by lia. cbn [negb].
      destruct b; [rewrite tb_one; replace (j - obit =? 0) with false by lia|rewrite N.bits_0];
        rewrite andb_true_r, orb_false_r; reflexivity.
    + cbn [negb]. rewrite andb_true_r, orb_false_r. reflexivity.
Qed.

Lemma tb_toggle_byte obit old j : obit < 8 -> j < 8 ->
  N.testbit (toggle_byte obit old) j = if j =? obit then negb (N.testbit old j) else N.testbit old j.
Proof.
  intros Ho Hj. unfold toggle_byte. rewrite tb_u8, N.lxor_spec, tb_shiftl.
  replace (j <? 8) with true by lia. cbn [andb].
  destruct (N.eqb_spec j obit) as [->|Ne].
  - replace (obit <=? obit) with true by lia. rewrite N.sub_diag. cbn [andb].
    change (N.testbit 1 0) with true. apply xorb_true_r.
  - destruct (N.leb_spec obit j) as [L|L]; cbn [andb].
    + rewrite tb_one. replace (j - obit =? 0) with false by lia. apply xorb_false_r.
    + apply xorb_false_r.
Qed.

(* SetBit: a read returns the written value (true or false), nothing else changes *)
Theorem cell_bit_set buf rows cols dim hdr row col (b : bool) :
  is_matrix buf rows cols dim hdr ->
  row < nrows rows -> col < cols ->
  nrows rows * cols < 18446744073709551616 ->
  N.of_nat (length hdr) + (nrows rows * cols + 7) / 8 <= N.of_nat (length buf) ->
  exists buf',
    entry_set_bit buf row col b dim = Some buf' /\
    is_matrix buf' rows cols dim hdr /\ length buf' = length buf /\
    entry_get_bit buf' row col dim = Some b /\
    (forall i, i <> N.to_nat (N.of_nat (length hdr) + (row * cols + col) / 8) -> nth i buf' 0 = nth i buf 0) /\
    (forall j, j < 8 -> j <> (row * cols + col) mod 8 ->
       N.testbit (nth (N.to_nat (N.of_nat (length hdr) + (row * cols + col) / 8)) buf' 0) j =
       N.testbit (nth (N.to_nat (N.of_nat (length hdr) + (row * cols + col) / 8)) buf 0) j) /\
    (forall row' col', row' < nrows rows -> col' < cols -> (row', col') <> (row, col) ->
       entry_get_bit buf' row' col' dim = entry_get_bit buf row' col' dim).
Proof.
  intros M Hrow Hcol Hsz Hfit.
  set (obit := (row * cols + col) mod 8).
  assert (Ho : obit < 8) by (apply N.mod_lt; lia).
  destruct (cell_bit_generic _ _ _ _ _ row col (setbit_byte obit b) M Hrow Hcol Hsz Hfit)
    as (BO & RD & WR & M' & Len & G0 & G1 & FR & FB & OTH).
  { intros o j Hj Hne. rewrite tb_setbit_byte by assumption. fold obit in Hne.
    replace (j =? obit) with false by lia. reflexivity. }
  eexists. split.
  { unfold entry_set_bit. rewrite BO, RD. fold obit. exact WR. }
  split; [exact M'|]. split; [exact Len|].
  split.
  { rewrite G1. fold obit. rewrite tb_setbit_byte by assumption. rewrite N.eqb_refl. reflexivity. }
  split; [exact FR|]. split; [exact FB|exact OTH].
Qed.

(* ToggleBit: returns the previous value, flips the cell, nothing else changes *)
Theorem cell_bit_toggle buf rows cols dim hdr row col :
  is_matrix buf rows cols dim hdr ->
  row < nrows rows -> col < cols ->
  nrows rows * cols < 18446744073709551616 ->
  N.of_nat (length hdr) + (nrows rows * cols + 7) / 8 <= N.of_nat (length buf) ->
  exists buf' old,
    entry_toggle_bit buf row col dim = Some (buf', old) /\
    entry_get_bit buf row col dim = Some old /\
    is_matrix buf' rows cols dim hdr /\ length buf' = length buf /\
    entry_get_bit buf' row col dim = Some (negb old) /\
    (forall i, i <> N.to_nat (N.of_nat (length hdr) + (row * cols + col) / 8) -> nth i buf' 0 = nth i buf 0) /\
    (forall j, j < 8 -> j <> (row * cols + col) mod 8 ->
       N.testbit (nth (N.to_nat (N.of_nat (length hdr) + (row * cols + col) / 8)) buf' 0) j =
       N.testbit (nth (N.to_nat (N.of_nat (length hdr) + (row * cols + col) / 8)) buf 0) j) /\
    (forall row' col', row' < nrows rows -> col' < cols -> (row', col') <> (row, col) ->
       entry_get_bit buf' row' col' dim = entry_get_bit buf row' col' dim).
Proof.
  intros M Hrow Hcol Hsz Hfit.
  set (obit := (row * cols + col) mod 8).
  assert (Ho : obit < 8) by (apply N.mod_lt; lia).
  destruct (cell_bit_generic _ _ _ _ _ row col (toggle_byte obit) M Hrow Hcol Hsz Hfit)
    as (BO & RD & WR & M' & Len & G0 & G1 & FR & FB & OTH).
  { intros o j Hj Hne. rewrite tb_toggle_byte by assumption. fold obit in Hne.
    replace (j =? obit) with false by lia. reflexivity. }
  eexists. eexists. split.
  { unfold entry_toggle_bit. rewrite BO, RD. fold obit.
    match goal with |- context [u8 (N.lxor ?b (N.shiftl 1 obit))] =>
      change (u8 (N.lxor b (N.shiftl 1 obit))) with (toggle_byte obit b) end.
    rewrite WR, bitval_testbit. reflexivity. }
  split; [exact G0|].
  split; [exact M'|]. split; [exact Len|].
  split.
  { rewrite G1. fold obit. rewrite tb_toggle_byte by assumption. rewrite N.eqb_refl. reflexivity. }
  split; [exact FR|]. split; [exact FB|exact OTH].
Qed.

(* ------------------------------------------------------------- sequences of writes *)

(* a history of unsigned cell writes (row, col, value), applied left to right *)
Fixpoint apply_writes (buf : list N) (ops : list (N * N * N)) (w dim : N) : option (list N) :=
  match ops with
  | [] => Some buf
  | (row, col, v) :: rest =>
      match entry_set_unsigned buf row col v w dim with
      | Some buf' => apply_writes buf' rest w dim
      | None => None
      end
  end.

(* the value most recently written to (row, col), if any *)
Fixpoint last_write (ops : list (N * N * N)) (row col : N) : option N :=
  match ops with
  | [] => None
  | (r, c, v) :: rest =>
      match last_write rest row col with
      | Some x => Some x
      | None => if (r =? row) && (c =? col) then Some v else None
      end
  end.

Theorem cell_write_sequence ops : forall buf rows cols dim hdr w,
  is_matrix buf rows cols dim hdr -> 1 <= w -> w <= 8 ->
  N.of_nat (length hdr) + nrows rows * cols * w <= N.of_nat (length buf) ->
  Forall (fun op => match op with (r, c, v) => r < nrows rows /\ c < cols /\ v < 256 ^ w end) ops ->
  exists buf',
    apply_writes buf ops w dim = Some buf' /\
    is_matrix buf' rows cols dim hdr /\ length buf' = length buf /\
    forall row col, row < nrows rows -> col < cols ->
      entry_get_unsigned buf' row col w dim =
      match last_write ops row col with
      | Some v => Some v
      | None => entry_get_unsigned buf row col w dim
      end.
Proof.
  induction ops as [|[[r c] v] rest IH]; intros buf rows cols dim hdr w M Hw1 Hw8 Hfit Hops.
  - exists buf. split; [reflexivity|]. split; [exact M|]. split; [reflexivity|]. intros; reflexivity.
  - inversion Hops as [|? ? Hop Hrest]; subst. cbv beta iota in Hop. destruct Hop as (Hr & Hc & Hv).
    destruct (cell_unsigned _ _ _ _ _ r c w v M Hr Hc Hw1 Hw8 Hfit Hv)
      as (b1 & S1 & M1 & L1 & G1 & _ & O1).
    destruct (IH b1 rows cols dim hdr w M1 Hw1 Hw8) as (b2 & A2 & M2 & L2 & G2);
      [rewrite L1; exact Hfit|exact Hrest|].
    exists b2. cbn [apply_writes]. rewrite S1.
    split; [exact A2|]. split; [exact M2|]. split; [lia|].
    intros row col Hrow Hcol. rewrite (G2 row col Hrow Hcol). cbn [last_write].
    destruct (last_write rest row col) as [x|]; [reflexivity|].
    destruct (N.eqb_spec r row) as [->|Nr]; cbn [andb].
    + destruct (N.eqb_spec c col) as [->|Nc]; [exact G1|].
      apply O1; try assumption. intro E; injection E as E; apply Nc; symmetry; exact E.
    + apply O1; try assumption. intro E; injection E as E _; apply Nr; symmetry; exact E.
Qed.

(* a history of bit operations *)
Inductive bitop : Type := BSet (b : bool) | BToggle.

Fixpoint apply_bitops (buf : list N) (ops : list (N * N * bitop)) (dim : N) : option (list N) :=
  match ops with
  | [] => Some buf
  | (row, col, BSet b) :: rest =>
      match entry_set_bit buf row col b dim with
      | Some buf' => apply_bitops buf' rest dim
      | None => None
      end
  | (row, col, BToggle) :: rest =>
      match entry_toggle_bit buf row col dim with
      | Some (buf', _) => apply_bitops buf' rest dim
      | None => None
      end
  end.

(* value of cell (row, col) after the history, given its initial value *)
Fixpoint bit_history (ops : list (N * N * bitop)) (row col : N) (init : bool) : bool :=
  match ops with
  | [] => init
  | (r, c, o) :: rest =>
      bit_history rest row col
        (if (r =? row) && (c =? col)
         then match o with BSet b => b | BToggle => negb init end
         else init)
  end.

Lemma cell_bit_defined buf rows cols dim hdr row col :
  is_matrix buf rows cols dim hdr ->
  row < nrows rows -> col < cols ->
  nrows rows * cols < 18446744073709551616 ->
  N.of_nat (length hdr) + (nrows rows * cols + 7) / 8 <= N.of_nat (length buf) ->
  exists v, entry_get_bit buf row col dim = Some v.
Proof.
  intros M Hrow Hcol Hsz Hfit.
  destruct (cell_bit_generic _ _ _ _ _ row col (fun b => b) M Hrow Hcol Hsz Hfit)
    as (_ & _ & _ & _ & _ & G0 & _); [reflexivity|].
  eexists. exact G0.
Qed.

Theorem cell_bit_sequence ops : forall buf rows cols dim hdr,
  is_matrix buf rows cols dim hdr ->
  nrows rows * cols < 18446744073709551616 ->
  N.of_nat (length hdr) + (nrows rows * cols + 7) / 8 <= N.of_nat (length buf) ->
  Forall (fun op => match op with (r, c, _) => r < nrows rows /\ c < cols end) ops ->
  exists buf',
    apply_bitops buf ops dim = Some buf' /\
    is_matrix buf' rows cols dim hdr /\ length buf' = length buf /\
    forall row col, row < nrows rows -> col < cols ->
      exists v0, entry_get_bit buf row col dim = Some v0 /\
                 entry_get_bit buf' row col dim = Some (bit_history ops row col v0).
Proof.
  induction ops as [|[[r c] o] rest IH]; intros buf rows cols dim hdr M Hsz Hfit Hops.
  - exists buf. split; [reflexivity|]. split; [exact M|]. split; [reflexivity|].
    intros row col Hrow Hcol. destruct (cell_bit_defined _ _ _ _ _ row col M Hrow Hcol Hsz Hfit) as [v Hv].
    exists v. split; exact Hv.
  - inversion Hops as [|? ? Hop Hrest]; subst. cbv beta iota in Hop. destruct Hop as (Hr & Hc).
    assert (Step : exists b1,
      (match o with
       | BSet b => match entry_set_bit buf r c b dim with
                   | Some buf' => apply_bitops buf' rest dim | None => None end
       | BToggle => match entry_toggle_bit buf r c dim with
                    | Some (buf', _) => apply_bitops buf' rest dim | None => None end
       end = apply_bitops b1 rest dim) /\
      is_matrix b1 rows cols dim hdr /\ length b1 = length buf /\
      (forall v0, entry_get_bit buf r c dim = Some v0 ->
         entry_get_bit b1 r c dim = Some (match o with BSet b => b | BToggle => negb v0 end)) /\
      (forall row' col', row' < nrows rows -> col' < cols -> (row', col') <> (r, c) ->
         entry_get_bit b1 row' col' dim = entry_get_bit buf row' col' dim)).
    { destruct o as [b|].
      - destruct (cell_bit_set _ _ _ _ _ r c b M Hr Hc Hsz Hfit) as (b1 & S1 & M1 & L1 & G1 & _ & _ & O1).
        exists b1. rewrite S1. split; [reflexivity|]. split; [exact M1|]. split; [exact L1|].
        split; [intros; exact G1|exact O1].
      - destruct (cell_bit_toggle _ _ _ _ _ r c M Hr Hc Hsz Hfit)
          as (b1 & old & S1 & G0 & M1 & L1 & G1 & _ & _ & O1).
        exists b1. rewrite S1. split; [reflexivity|]. split; [exact M1|]. split; [exact L1|].
        split; [|exact O1].
        intros v0 Hv0. rewrite G0 in Hv0. injection Hv0 as <-. exact G1. }
    destruct Step as (b1 & S1 & M1 & L1 & G1 & O1).
    destruct (IH b1 rows cols dim hdr M1 Hsz) as (b2 & A2 & M2 & L2 & G2);
      [rewrite L1; exact Hfit|exact Hrest|].
    exists b2. split.
    { cbn [apply_bitops]. destruct o; rewrite S1; exact A2. }
    split; [exact M2|]. split; [lia|].
    intros row col Hrow Hcol.
    destruct (cell_bit_defined _ _ _ _ _ row col M Hrow Hcol Hsz Hfit) as [v0 Hv0].
    exists v0. split; [exact Hv0|].
    destruct (G2 row col Hrow Hcol) as (v1 & Hv1 & Hfin). rewrite Hfin. cbn [bit_history].
    f_equal. f_equal.
    destruct (N.eqb_spec r row) as [Er|Nr]; cbn [andb].
    + destruct (N.eqb_spec c col) as [Ec|Nc].
      * subst row col. rewrite (G1 v0 Hv0) in Hv1. injection Hv1 as <-. reflexivity.
      * rewrite O1 in Hv1; try assumption; [rewrite Hv0 in Hv1; injection Hv1 as <-; reflexivity|].
        intro E; injection E as _ E; apply Nc; symmetry; exact E.
    + rewrite O1 in Hv1; try assumption; [rewrite Hv0 in Hv1; injection Hv1 as <-; reflexivity|].
      intro E; injection E as E _; apply Nr; symmetry; exact E.
Qed.

(* ------------------------------------------------------------- statements in
   the form used by Properties_C10_bitdim.v (hypotheses spelled out) *)

Lemma is_matrix_intro rows cols dim hdr data :
  rows < 18446744073709551616 -> 1 <= cols -> cols < 18446744073709551616 ->
  pair_encode rows cols = Some (dim, hdr) ->
  N.of_nat (length (hdr ++ data)) < 18446744073709551616 ->
  is_matrix (hdr ++ data) rows cols dim hdr.
Proof.
  intros Hr Hc1 Hc E B. unfold is_matrix. repeat split; try assumption.
  - rewrite firstn_app, firstn_all, Nat.sub_diag. cbn [firstn]. apply app_nil_r.
  - rewrite app_length. lia.
Qed.

Lemma is_matrix_out buf' rows cols dim hdr data :
  is_matrix buf' rows cols dim hdr -> length buf' = length (hdr ++ data) ->
  exists data', buf' = hdr ++ data' /\ length data' = length data.
Proof.
  intros M L. exists (skipn (length hdr) buf'). split; [exact (is_matrix_split _ _ _ _ _ M)|].
  rewrite skipn_length, L, app_length. lia.
Qed.

Theorem c10_pair_roundtrip rows cols :
  rows < 18446744073709551616 -> 1 <= cols -> cols < 18446744073709551616 ->
  let dim := pair_dimension rows cols in
  let wr := if rows =? 0 then 0 else N.of_nat (ext_width rows) in
  let wc := N.of_nat (ext_width cols) in
  wr <= 8 /\ 1 <= wc /\ wc <= 8 /\
  rows < 256 ^ wr /\ cols < 256 ^ wc /\
  pair_row_count dim = wr /\ pair_col_count dim = wc /\ pair_is_sparse dim = 0 /\
  exists hdr,
    pair_encode rows cols = Some (dim, hdr) /\
    hdr = le_bytes (N.to_nat wr) rows ++ le_bytes (N.to_nat wc) cols /\
    N.of_nat (length hdr) = pair_byte_length dim /\
    pair_byte_length dim = wr + wc /\
    forall tail, pair_decode (hdr ++ tail) dim = Some (rows, cols).
Proof.
  intros Hr Hc1 Hc dim wr wc.
  destruct (need_rows_range rows Hr) as (R8 & Rlt & _).
  destruct (need_cols_range cols Hc) as (C1 & C8 & Clt).
  destruct (pair_dimension_fields rows cols Hr Hc1 Hc) as (Fr & Fc & Fs).
  fold (need_rows rows) in wr. fold (need_cols cols) in wc.
  repeat (split; [assumption|]).
  destruct (pair_roundtrip rows cols Hr Hc1 Hc) as (hdr & E & Eh & L & BL & D).
  exists hdr. repeat split; assumption.
Qed.

Theorem c10_cell_unsigned rows cols dim hdr data row col w v :
  rows < 18446744073709551616 -> 1 <= cols -> cols < 18446744073709551616 ->
  pair_encode rows cols = Some (dim, hdr) ->
  N.of_nat (length (hdr ++ data)) < 18446744073709551616 ->
  row < (if rows =? 0 then 1 else rows) -> col < cols -> 1 <= w -> w <= 8 ->
  N.of_nat (length hdr) + (if rows =? 0 then 1 else rows) * cols * w <= N.of_nat (length (hdr ++ data)) ->
  v < 256 ^ w ->
  exists data',
    entry_set_unsigned (hdr ++ data) row col v w dim = Some (hdr ++ data') /\
    length data' = length data /\
    entry_get_unsigned (hdr ++ data') row col w dim = Some v /\
    (forall i, ~ (N.of_nat (length hdr) + (row * cols + col) * w <= N.of_nat i
                  < N.of_nat (length hdr) + (row * cols + col) * w + w) ->
               nth i (hdr ++ data') 0 = nth i (hdr ++ data) 0) /\
    (forall row' col', row' < (if rows =? 0 then 1 else rows) -> col' < cols -> (row', col') <> (row, col) ->
       entry_get_unsigned (hdr ++ data') row' col' w dim = entry_get_unsigned (hdr ++ data) row' col' w dim).
Proof.
  intros Hr Hc1 Hc E B Hrow Hcol Hw1 Hw8 Hfit Hv.
  pose proof (is_matrix_intro rows cols dim hdr data Hr Hc1 Hc E B) as M.
  destruct (cell_unsigned _ _ _ _ _ row col w v M Hrow Hcol Hw1 Hw8 Hfit Hv)
    as (buf' & S & M' & L & G & FR & OTH).
  destruct (is_matrix_out _ _ _ _ _ data M' L) as (data' & -> & Ld).
  exists data'. repeat split; assumption.
Qed.

Theorem c10_cell_raw k rows cols dim hdr data row col bits :
  rows < 18446744073709551616 -> 1 <= cols -> cols < 18446744073709551616 ->
  pair_encode rows cols = Some (dim, hdr) ->
  N.of_nat (length (hdr ++ data)) < 18446744073709551616 ->
  row < (if rows =? 0 then 1 else rows) -> col < cols -> 1 <= k -> k <= 8 ->
  N.of_nat (length hdr) + (if rows =? 0 then 1 else rows) * cols * k <= N.of_nat (length (hdr ++ data)) ->
  bits < 256 ^ k ->
  exists data',
    entry_set_raw k (hdr ++ data) row col bits dim = Some (hdr ++ data') /\
    length data' = length data /\
    entry_get_raw k (hdr ++ data') row col dim = Some bits /\
    (forall i, ~ (N.of_nat (length hdr) + (row * cols + col) * k <= N.of_nat i
                  < N.of_nat (length hdr) + (row * cols + col) * k + k) ->
               nth i (hdr ++ data') 0 = nth i (hdr ++ data) 0) /\
    (forall row' col', row' < (if rows =? 0 then 1 else rows) -> col' < cols -> (row', col') <> (row, col) ->
       entry_get_raw k (hdr ++ data') row' col' dim = entry_get_raw k (hdr ++ data) row' col' dim).
Proof.
  intros Hr Hc1 Hc E B Hrow Hcol Hw1 Hw8 Hfit Hv.
  pose proof (is_matrix_intro rows cols dim hdr data Hr Hc1 Hc E B) as M.
  destruct (cell_raw k _ _ _ _ _ row col bits M Hrow Hcol Hw1 Hw8 Hfit Hv)
    as (buf' & S & M' & L & G & FR & OTH).
  destruct (is_matrix_out _ _ _ _ _ data M' L) as (data' & -> & Ld).
  exists data'. repeat split; assumption.
Qed.

Theorem c10_bit_set rows cols dim hdr data row col (b : bool) :
  rows < 18446744073709551616 -> 1 <= cols -> cols < 18446744073709551616 ->
  pair_encode rows cols = Some (dim, hdr) ->
  N.of_nat (length (hdr ++ data)) < 18446744073709551616 ->
  row < (if rows =? 0 then 1 else rows) -> col < cols ->
  (if rows =? 0 then 1 else rows) * cols < 18446744073709551616 ->
  N.of_nat (length hdr) + ((if rows =? 0 then 1 else rows) * cols + 7) / 8 <= N.of_nat (length (hdr ++ data)) ->
  exists data',
    entry_set_bit (hdr ++ data) row col b dim = Some (hdr ++ data') /\
    length data' = length data /\
    entry_get_bit (hdr ++ data') row col dim = Some b /\
    (forall i, i <> N.to_nat (N.of_nat (length hdr) + (row * cols + col) / 8) ->
               nth i (hdr ++ data') 0 = nth i (hdr ++ data) 0) /\
    (forall j, j < 8 -> j <> (row * cols + col) mod 8 ->
       N.testbit (nth (N.to_nat (N.of_nat (length hdr) + (row * cols + col) / 8)) (hdr ++ data') 0) j =
       N.testbit (nth (N.to_nat (N.of_nat (length hdr) + (row * cols + col) / 8)) (hdr ++ data) 0) j) /\
    (forall row' col', row' < (if rows =? 0 then 1 else rows) -> col' < cols -> (row', col') <> (row, col) ->
       entry_get_bit (hdr ++ data') row' col' dim = entry_get_bit (hdr ++ data) row' col' dim).
Proof.
  intros Hr Hc1 Hc E B Hrow Hcol Hsz Hfit.
  pose proof (is_matrix_intro rows cols dim hdr data Hr Hc1 Hc E B) as M.
  destruct (cell_bit_set _ _ _ _ _ row col b M Hrow Hcol Hsz Hfit)
    as (buf' & S & M' & L & G & FR & FB & OTH).
  destruct (is_matrix_out _ _ _ _ _ data M' L) as (data' & -> & Ld).
  exists data'. repeat split; assumption.
Qed.

Theorem c10_bit_toggle rows cols dim hdr data row col :
  rows < 18446744073709551616 -> 1 <= cols -> cols < 18446744073709551616 ->
  pair_encode rows cols = Some (dim, hdr) ->
  N.of_nat (length (hdr ++ data)) < 18446744073709551616 ->
  row < (if rows =? 0 then 1 else rows) -> col < cols ->
  (if rows =? 0 then 1 else rows) * cols < 18446744073709551616 ->
  N.of_nat (length hdr) + ((if rows =? 0 then 1 else rows) * cols + 7) / 8 <= N.of_nat (length (hdr ++ data)) ->
  exists data' old,
    entry_toggle_bit (hdr ++ data) row col dim = Some (hdr ++ data', old) /\
    entry_get_bit (hdr ++ data) row col dim = Some old /\
    length data' = length data /\
    entry_get_bit (hdr ++ data') row col dim = Some (negb old) /\
    (forall i, i <> N.to_nat (N.of_nat (length hdr) + (row * cols + col) / 8) ->
               nth i (hdr ++ data') 0 = nth i (hdr ++ data) 0) /\
    (forall j, j < 8 -> j <> (row * cols + col) mod 8 ->
       N.testbit (nth (N.to_nat (N.of_nat (length hdr) + (row * cols + col) / 8)) (hdr ++ data') 0) j =
       N.testbit (nth (N.to_nat (N.of_nat (length hdr) + (row * cols + col) / 8)) (hdr ++ data) 0) j) /\
    (forall row' col', row' < (if rows =? 0 then 1 else rows) -> col' < cols -> (row', col') <> (row, col) ->
       entry_get_bit (hdr ++ data') row' col' dim = entry_get_bit (hdr ++ data) row' col' dim).
Proof.
  intros Hr Hc1 Hc E B Hrow Hcol Hsz Hfit.
  pose proof (is_matrix_intro rows cols dim hdr data Hr Hc1 Hc E B) as M.
  destruct (cell_bit_toggle _ _ _ _ _ row col M Hrow Hcol Hsz Hfit)
    as (buf' & old & S & G0 & M' & L & G & FR & FB & OTH).
  destruct (is_matrix_out _ _ _ _ _ data M' L) as (data' & -> & Ld).
  exists data', old. repeat split; assumption.
Qed.

Theorem c10_write_sequence rows cols dim hdr data w ops :
  rows < 18446744073709551616 -> 1 <= cols -> cols < 18446744073709551616 ->
  pair_encode rows cols = Some (dim, hdr) ->
  N.of_nat (length (hdr ++ data)) < 18446744073709551616 ->
  1 <= w -> w <= 8 ->
  N.of_nat (length hdr) + (if rows =? 0 then 1 else rows) * cols * w <= N.of_nat (length (hdr ++ data)) ->
  Forall (fun op => match op with
                    | (r, c, v) => r < (if rows =? 0 then 1 else rows) /\ c < cols /\ v < 256 ^ w
                    end) ops ->
  exists data',
    apply_writes (hdr ++ data) ops w dim = Some (hdr ++ data') /\
    length data' = length data /\
    forall row col, row < (if rows =? 0 then 1 else rows) -> col < cols ->
      entry_get_unsigned (hdr ++ data') row col w dim =
      match last_write ops row col with
      | Some v => Some v
      | None => entry_get_unsigned (hdr ++ data) row col w dim
      end.
Proof.
  intros Hr Hc1 Hc E B Hw1 Hw8 Hfit Hops.
  pose proof (is_matrix_intro rows cols dim hdr data Hr Hc1 Hc E B) as M.
  destruct (cell_write_sequence ops _ _ _ _ _ w M Hw1 Hw8 Hfit Hops) as (buf' & A & M' & L & G).
  destruct (is_matrix_out _ _ _ _ _ data M' L) as (data' & -> & Ld).
  exists data'. repeat split; assumption.
Qed.

Theorem c10_bit_sequence rows cols dim hdr data ops :
  rows < 18446744073709551616 -> 1 <= cols -> cols < 18446744073709551616 ->
  pair_encode rows cols = Some (dim, hdr) ->
  N.of_nat (length (hdr ++ data)) < 18446744073709551616 ->
  (if rows =? 0 then 1 else rows) * cols < 18446744073709551616 ->
  N.of_nat (length hdr) + ((if rows =? 0 then 1 else rows) * cols + 7) / 8 <= N.of_nat (length (hdr ++ data)) ->
  Forall (fun op => match op with
                    | (r, c, _) => r < (if rows =? 0 then 1 else rows) /\ c < cols
                    end) ops ->
  exists data',
    apply_bitops (hdr ++ data) ops dim = Some (hdr ++ data') /\
    length data' = length data /\
    forall row col, row < (if rows =? 0 then 1 else rows) -> col < cols ->
      exists v0, entry_get_bit (hdr ++ data) row col dim = Some v0 /\
                 entry_get_bit (hdr ++ data') row col dim = Some (bit_history ops row col v0).
Proof.
  intros Hr Hc1 Hc E B Hsz Hfit Hops.
  pose proof (is_matrix_intro rows cols dim hdr data Hr Hc1 Hc E B) as M.
  destruct (cell_bit_sequence ops _ _ _ _ _ M Hsz Hfit Hops) as (buf' & A & M' & L & G).
  destruct (is_matrix_out _ _ _ _ _ data M' L) as (data' & -> & Ld).
  exists data'. repeat split; assumption.
Qed.
