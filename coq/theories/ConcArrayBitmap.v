(* ConcArrayBitmap.v — C17 instances for readers of a SHARED bitmap
   (Bitmap.v): varintBitmapContains and varintBitmapToArray.

   The bitmap object lives in n byte cells at src, holding its image
   (type, cardinality, container: exactly the bytes of bm_encode); a reader
   reads the whole object, and what it sees is the state bm_decode rebuilds
   from those bytes (None = not the image of a bitmap: result [0]).  No reader
   writes to the object, so any number of them may share it.  ToArray writes
   cardinality <= 65536 uint16_t cells (inv_card_le on the decoded state,
   C14_bitmap_decode_result_wellformed): a 65536-cell window at dst is its
   footprint. *)
Require Import VV.Conc VV.ConcProofs VV.ConcCodec VV.ConcCodec2 VV.ConcArray.
Require Import VV.Base VV.BaseProofs VV.Bitmap VV.BitmapLemmas VV.BitmapProofs VV.BitmapProofsSer.
From Coq Require Import List NArith Arith Lia Bool.
Import ListNotations.
Local Open Scope N_scope.

Definition bm_view_of (bs : list N) : option bm_state :=
  fst (bm_decode (map u8 bs) (N.of_nat (length bs))).

(* ---------------- varintBitmapContains(vb, value) ---------------- *)
Definition bm_contains_fn (v : N) (bs : list N) : list N * list N :=
  ([], match bm_view_of bs with
       | Some s => [1; b2n (bm_contains s (u16 v))]
       | None => [0]
       end).

(* readers only: no hypothesis at all about where the objects are *)
Theorem bitmap_contains_threads_safe (ps : list (io * N)) (m0 : mem) :
  forall sched,
  let ths := map (fun p => prog1 (io_src (fst p)) (io_n (fst p)) (io_dst (fst p)) (bm_contains_fn (snd p))) ps in
  ~ races (snd (crun sched (m0, ths))) /\
  forall i p r, nth_error ps i = Some p ->
    nth_error (snd (crun sched (m0, ths))) i = Some (Ret r) ->
    r = snd (bm_contains_fn (snd p) (peek m0 (io_src (fst p)) (io_n (fst p)))).
Proof.
  intro sched.
  destruct (family1_safe (io * N) (fun p => io_src (fst p)) (fun p => io_n (fst p))
              (fun p => io_dst (fst p)) (fun _ => 0%nat)
              (fun p => bm_contains_fn (snd p)) ps m0) with (sched := sched) as [NR SE].
  - intros p _ bs _. cbn. lia.
  - intros i j pi pj _ _ _ l Hl. unfold in_range in Hl. lia.
  - split; [exact NR|]. intros i p r Hp Hr. exact (proj1 (SE i p r Hp Hr)).
Qed.

(* ---------------- varintBitmapToArray(vb, output) ----------------
   result [1; count] and the members, ascending, at dst[0 .. count) *)
Definition bm_to_array_fn (bs : list N) : list N * list N :=
  match bm_view_of bs with
  | Some s => (bm_to_array s, [1; bm_cardinality s])
  | None => ([], [0])
  end.

Lemma bm_to_array_fn_bound bs : (length (fst (bm_to_array_fn bs)) <= N.to_nat 65536)%nat.
Proof.
  unfold bm_to_array_fn. destruct (bm_view_of bs) as [s|] eqn:E; cbn [fst length]; [|lia].
  pose proof (decode_inv _ _ s (map_u8_ok bs) E) as I.
  pose proof (inv_card_le s I) as C. pose proof (inv_card s I) as L.
  unfold bm_abs, bm_lenN in L. unfold bm_to_array. lia.
Qed.

Theorem bitmap_to_array_threads_safe (ps : list io) (m0 : mem) :
  (forall i j pi pj, i <> j -> nth_error ps i = Some pi -> nth_error ps j = Some pj ->
     forall l, in_range (io_dst pj) (N.to_nat 65536) l ->
       ~ in_range (io_dst pi) (N.to_nat 65536) l /\ ~ in_range (io_src pi) (io_n pi) l) ->
  forall sched,
  let ths := map (fun p => prog1 (io_src p) (io_n p) (io_dst p) bm_to_array_fn) ps in
  ~ races (snd (crun sched (m0, ths))) /\
  forall i p r, nth_error ps i = Some p ->
    nth_error (snd (crun sched (m0, ths))) i = Some (Ret r) ->
    let res := bm_to_array_fn (peek m0 (io_src p) (io_n p)) in
    r = snd res /\
    forall j, (j < length (fst res))%nat ->
      fst (crun sched (m0, ths)) (io_dst p + N.of_nat j) = nth j (fst res) 0.
Proof.
  intros AP sched.
  refine (family1_safe io io_src io_n io_dst (fun _ => (N.to_nat 65536))
            (fun _ => bm_to_array_fn) ps m0 _ AP sched).
  intros p _ bs _. apply bm_to_array_fn_bound.
Qed.
