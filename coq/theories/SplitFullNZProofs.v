(* SplitFullNZProofs.v — lemmas about the SplitFullNoZero model
   (varintSplitFullNoZero.h).  The encoder is SplitFull's shifted by one
   (sfnz_put x = sf_put (x - 1) for x >= 1); the readers are proved on the
   shared normal form. *)
Require Import VV.Base VV.BaseProofs VV.SplitFull VV.SplitFullLemmas VV.SplitFullProofs.
From Coq Require Import Lia ZifyBool ZifyN ZifyNat Arith.
Local Open Scope N_scope.
Ltac Zify.zify_post_hook ::= Z.div_mod_to_equations.

Ltac sfnz_consts :=
  unfold SFNZ_MAX_22, SFNZ_MAX_14, SFNZ_MAX_6, SFNZ_MASK, SFNZ_6_MASK,
         SFNZ_TAG_6, SFNZ_TAG_14, SFNZ_TAG_22, SFNZ_TAG_VAR in *.

Lemma sfnz_length_var_sf v : sfnz_length_var v = sf_length_var v.
Proof. reflexivity. Qed.

Theorem sfnz_length_sf x : 1 <= x -> sfnz_length x = sf_length (x - 1).
Proof.
  intro H1. unfold sfnz_length, sf_length. sfnz_consts. sf_consts.
  change (64 + 16383) with 16447. change (16447 + 4194303) with 4210750.
  change (63 + 16383) with 16446. change (16446 + 4194303) with 4210749.
  rewrite sfnz_length_var_sf.
  destruct (x <=? 64) eqn:E1; destruct (x - 1 <=? 63) eqn:F1; try (exfalso; lia); [reflexivity|].
  destruct (x <=? 16447) eqn:E2; destruct (x - 1 <=? 16446) eqn:F2; try (exfalso; lia); [reflexivity|].
  destruct (x <=? 4210750) eqn:E3; destruct (x - 1 <=? 4210749) eqn:F3; try (exfalso; lia);
    [reflexivity|].
  f_equal. lia.
Qed.

Theorem sfnz_put_sf x : 1 <= x -> x < 18446744073709551616 -> sfnz_put x = sf_put (x - 1).
Proof.
  intros H1 Hx. unfold sfnz_put, sf_put. sfnz_consts. sf_consts. cbv zeta.
  change (64 + 16383) with 16447. change (16447 + 4194303) with 4210750.
  change (63 + 16383) with 16446. change (16446 + 4194303) with 4210749.
  rewrite !sfnz_length_var_sf.
  destruct (x <=? 64) eqn:E1; destruct (x - 1 <=? 63) eqn:F1; try (exfalso; lia).
  { replace (sub64 x 1) with (x - 1) by (unfold sub64; lia). reflexivity. }
  destruct (x <=? 16447) eqn:E2; destruct (x - 1 <=? 16446) eqn:F2; try (exfalso; lia).
  { replace (x - 1 - 63) with (x - 64) by lia. reflexivity. }
  destruct (x <=? 4210750) eqn:E3; destruct (x - 1 <=? 4210749) eqn:F3; try (exfalso; lia).
  { replace (x - 1 - 16446) with (x - 16447) by lia. reflexivity. }
  replace (x - 1 - 4210749) with (x - 4210750) by lia. reflexivity.
Qed.

Theorem sfnz_rev_put_forward_sf x : 1 <= x -> x < 18446744073709551616 ->
  sfnz_rev_put_forward x = sf_rev_put_forward (x - 1).
Proof.
  intros H1 Hx. unfold sfnz_rev_put_forward, sf_rev_put_forward. sfnz_consts. sf_consts. cbv zeta.
  change (64 + 16383) with 16447. change (16447 + 4194303) with 4210750.
  change (63 + 16383) with 16446. change (16446 + 4194303) with 4210749.
  rewrite !sfnz_length_var_sf.
  destruct (x <=? 64) eqn:E1; destruct (x - 1 <=? 63) eqn:F1; try (exfalso; lia).
  { replace (sub64 x 1) with (x - 1) by (unfold sub64; lia). reflexivity. }
  destruct (x <=? 16447) eqn:E2; destruct (x - 1 <=? 16446) eqn:F2; try (exfalso; lia).
  { replace (x - 1 - 63) with (x - 64) by lia. reflexivity. }
  destruct (x <=? 4210750) eqn:E3; destruct (x - 1 <=? 4210749) eqn:F3; try (exfalso; lia).
  { replace (x - 1 - 16446) with (x - 16447) by lia. reflexivity. }
  replace (x - 1 - 4210749) with (x - 4210750) by lia. reflexivity.
Qed.

Theorem sfnz_rev_put_reversed_sf x : 1 <= x -> x < 18446744073709551616 ->
  sfnz_rev_put_reversed x = sf_rev_put_reversed (x - 1).
Proof.
  intros H1 Hx. unfold sfnz_rev_put_reversed, sf_rev_put_reversed. sfnz_consts. sf_consts. cbv zeta.
  change (64 + 16383) with 16447. change (16447 + 4194303) with 4210750.
  change (63 + 16383) with 16446. change (16446 + 4194303) with 4210749.
  rewrite !sfnz_length_var_sf.
  destruct (x <=? 64) eqn:E1; destruct (x - 1 <=? 63) eqn:F1; try (exfalso; lia).
  { replace (sub64 x 1) with (x - 1) by (unfold sub64; lia). reflexivity. }
  destruct (x <=? 16447) eqn:E2; destruct (x - 1 <=? 16446) eqn:F2; try (exfalso; lia).
  { replace (x - 1 - 63) with (x - 64) by lia. reflexivity. }
  destruct (x <=? 4210750) eqn:E3; destruct (x - 1 <=? 4210749) eqn:F3; try (exfalso; lia).
  { replace (x - 1 - 16446) with (x - 16447) by lia. reflexivity. }
  replace (x - 1 - 4210749) with (x - 4210750) by lia. reflexivity.
Qed.

Lemma sfnz_getlen_sf z : sfnz_getlen z = sf_getlen z.
Proof. reflexivity. Qed.
Lemma sfnz_getlen_quick_sf z : sfnz_getlen_quick z = sf_getlen_quick z.
Proof. reflexivity. Qed.

Theorem sfnz_put_length x : 1 <= x -> x < 18446744073709551616 ->
  N.of_nat (length (sfnz_put x)) = sfnz_length x.
Proof. intros. rewrite sfnz_put_sf, sfnz_length_sf by assumption. apply sf_put_length. lia. Qed.

Theorem sfnz_length_range x : 1 <= x -> x < 18446744073709551616 -> 1 <= sfnz_length x <= 9.
Proof. intros. rewrite sfnz_length_sf by assumption. apply sf_length_range. lia. Qed.

Theorem sfnz_put_bytes_ok x : 1 <= x -> x < 18446744073709551616 -> bytes_ok (sfnz_put x).
Proof. intros. rewrite sfnz_put_sf by assumption. apply sf_put_bytes_ok. lia. Qed.

Theorem sfnz_getlen_put x tl : 1 <= x -> x < 18446744073709551616 ->
  sfnz_getlen (sfnz_put x ++ tl) = sfnz_length x.
Proof.
  intros. rewrite sfnz_getlen_sf, sfnz_put_sf, sfnz_length_sf by assumption.
  apply sf_getlen_put. lia.
Qed.

Theorem sfnz_getlen_quick_put x tl : 1 <= x -> x < 18446744073709551616 ->
  sfnz_getlen_quick (sfnz_put x ++ tl) = sfnz_length x.
Proof.
  intros. rewrite sfnz_getlen_quick_sf, sfnz_put_sf, sfnz_length_sf by assumption.
  apply sf_getlen_quick_put. lia.
Qed.

(* ---------------- round trip ---------------- *)

Lemma sfnz_get_norm y tl : y < 18446744073709551615 ->
  sfnz_get (sf_norm y ++ tl) = Some (sf_norm_len y, y + 1).
Proof.
  intro Hy. unfold sf_norm, sf_norm_len.
  destruct (y <=? 63) eqn:E1.
  { unfold sfnz_get. cbv zeta. cbn [app byte_at nth].
    change (sfnz_encoding2 y) with (sf_encoding2 y). rewrite sf_enc2 by lia. sfnz_consts.
    sfl_kill_ifs. rewrite sfl_land63. unfold add64. f_equal. f_equal; lia. }
  destruct (y <=? 16446) eqn:E2.
  { unfold sfnz_get. cbv zeta. cbn [app byte_at nth].
    change (sfnz_encoding2 ?b) with (sf_encoding2 b). rewrite sf_enc2 by lia. sfnz_consts.
    sfl_kill_ifs. rewrite sfl_land63. rewrite sfl_or2_32 by lia. unfold add64.
    f_equal. f_equal; lia. }
  destruct (y <=? 4210749) eqn:E3.
  { unfold sfnz_get. cbv zeta. cbn [app byte_at nth].
    change (sfnz_encoding2 ?b) with (sf_encoding2 b). rewrite sf_enc2 by lia. sfnz_consts.
    change (64 + 16383) with 16447.
    sfl_kill_ifs. rewrite sfl_land63. rewrite sfl_or3_32 by lia. unfold add64.
    f_equal. f_equal; lia. }
  assert (Hv : y - 4210749 < 18446744073709551616) by lia.
  destruct (sfl_kw_facts _ Hv) as (A & B & _).
  set (v := y - 4210749) in *. set (k := sfl_kw v) in *.
  unfold sfnz_get. cbv zeta. cbn [app byte_at nth].
  change (sfnz_encoding2 ?b) with (sf_encoding2 b). rewrite sf_enc2 by lia. sfnz_consts.
  change (64 + 16383 + 4194303) with 4210750.
  destruct (64 * ((192 + N.of_nat k) / 64) =? 0) eqn:F1; [lia|].
  destruct (64 * ((192 + N.of_nat k) / 64) =? 64) eqn:F2; [lia|].
  destruct (64 * ((192 + N.of_nat k) / 64) =? 128) eqn:F3; [lia|].
  destruct (64 * ((192 + N.of_nat k) / 64) =? 192) eqn:F4; [|lia].
  change (sfnz_width_external ?b) with (sf_width_external b).
  rewrite sf_width_of_tag by lia.
  rewrite (sf_ext_get_medium_le _ k v); [| lia | exact B |].
  - unfold add64. f_equal. f_equal. lia.
  - intros i Hi. cbn [Nat.add nth]. apply sf_nth_app_le. rewrite length_le_bytes. exact Hi.
Qed.

Theorem sfnz_roundtrip x tl : 1 <= x -> x < 18446744073709551616 ->
  sfnz_get (sfnz_put x ++ tl) = Some (sfnz_length x, x).
Proof.
  intros H1 Hx. rewrite sfnz_put_sf, sfnz_length_sf by assumption.
  rewrite sf_put_norm, sf_length_norm by lia. rewrite sfnz_get_norm by lia.
  f_equal. f_equal. lia.
Qed.

(* ---------------- reversed forms ---------------- *)

Theorem sfnz_rev_reversed_forward x : fst (sfnz_rev_put_reversed x) = sfnz_rev_put_forward x.
Proof.
  unfold sfnz_rev_put_reversed, sfnz_rev_put_forward. cbv zeta.
  destruct (x <=? SFNZ_MAX_6); [reflexivity|]. destruct (x <=? SFNZ_MAX_14); [reflexivity|].
  destruct (x <=? SFNZ_MAX_22); reflexivity.
Qed.

Theorem sfnz_rev_put_length x : 1 <= x -> x < 18446744073709551616 ->
  N.of_nat (length (sfnz_rev_put_forward x)) = sfnz_length x.
Proof.
  intros. rewrite sfnz_rev_put_forward_sf, sfnz_length_sf by assumption.
  apply sf_rev_put_length. lia.
Qed.

Theorem sfnz_rev_reversed_offset x : 1 <= x -> x < 18446744073709551616 ->
  S (snd (sfnz_rev_put_reversed x)) = length (fst (sfnz_rev_put_reversed x)).
Proof.
  intros. rewrite sfnz_rev_put_reversed_sf by assumption. apply sf_rev_reversed_offset. lia.
Qed.

Lemma sfnz_rev_get_r_norm y tl : y < 18446744073709551615 ->
  sfnz_rev_get_r (rev (sf_rev_norm y) ++ tl) = Some (sf_norm_len y, y + 1).
Proof.
  intro Hy. unfold sf_rev_norm, sf_norm_len.
  destruct (y <=? 63) eqn:E1.
  { unfold sfnz_rev_get_r. cbv zeta. cbn [rev app byte_at nth].
    change (sfnz_encoding2 y) with (sf_encoding2 y). rewrite sf_enc2 by lia. sfnz_consts.
    sfl_kill_ifs. rewrite sfl_land63. unfold add64. f_equal. f_equal; lia. }
  destruct (y <=? 16446) eqn:E2.
  { unfold sfnz_rev_get_r. cbv zeta. cbn [rev app byte_at nth].
    change (sfnz_encoding2 ?b) with (sf_encoding2 b). rewrite sf_enc2 by lia. sfnz_consts.
    sfl_kill_ifs. rewrite sfl_land63. rewrite sfl_or2 by lia. unfold add64.
    f_equal. f_equal; lia. }
  destruct (y <=? 4210749) eqn:E3.
  { unfold sfnz_rev_get_r. cbv zeta. cbn [rev app byte_at nth].
    change (sfnz_encoding2 ?b) with (sf_encoding2 b). rewrite sf_enc2 by lia. sfnz_consts.
    change (64 + 16383) with 16447.
    sfl_kill_ifs. rewrite sfl_land63. rewrite sfl_or3 by lia. unfold add64.
    f_equal. f_equal; lia. }
  assert (Hv : y - 4210749 < 18446744073709551616) by lia.
  destruct (sfl_kw_facts _ Hv) as (A & B & _).
  set (v := y - 4210749) in *. set (k := sfl_kw v) in *.
  rewrite rev_app_distr. cbn [rev app].
  unfold sfnz_rev_get_r. cbv zeta. cbn [app byte_at nth].
  change (sfnz_encoding2 ?b) with (sf_encoding2 b). rewrite sf_enc2 by lia. sfnz_consts.
  change (64 + 16383 + 4194303) with 4210750.
  destruct (64 * ((192 + N.of_nat k) / 64) =? 0) eqn:F1; [lia|].
  destruct (64 * ((192 + N.of_nat k) / 64) =? 64) eqn:F2; [lia|].
  destruct (64 * ((192 + N.of_nat k) / 64) =? 128) eqn:F3; [lia|].
  destruct (64 * ((192 + N.of_nat k) / 64) =? 192) eqn:F4; [|lia].
  change (sfnz_width_external ?b) with (sf_width_external b).
  rewrite sf_width_of_tag by lia. rewrite Nat2N.id.
  rewrite (sf_ext_get_medium_le _ k v); [| lia | exact B |].
  - unfold add64. f_equal. f_equal. lia.
  - intros i Hi. replace (k - i)%nat with (S (k - i - 1)) by lia. cbn [nth].
    rewrite sf_nth_app_le by (rewrite rev_length, length_le_bytes; lia).
    rewrite rev_nth by (rewrite length_le_bytes; lia).
    rewrite length_le_bytes. f_equal. lia.
Qed.

Theorem sfnz_rev_roundtrip x pre post : 1 <= x -> x < 18446744073709551616 ->
  sfnz_rev_get (pre ++ sfnz_rev_put_forward x ++ post)
               (length pre + (length (sfnz_rev_put_forward x) - 1))
  = Some (sfnz_length x, x).
Proof.
  intros H1 Hx. unfold sfnz_rev_get.
  pose proof (sfnz_rev_put_length x H1 Hx) as HL. pose proof (sfnz_length_range x H1 Hx) as HR.
  rewrite sf_rev_view by lia.
  rewrite sfnz_rev_put_forward_sf, sfnz_length_sf by assumption.
  rewrite sf_rev_put_forward_norm, sf_length_norm by lia.
  rewrite sfnz_rev_get_r_norm by lia. f_equal. f_equal. lia.
Qed.
