(* Properties_C02_elias.v — property C02 (integer-array codecs are lossless),
   Elias gamma / delta part.  Only statements closed by `exact`, each followed
   by Print Assumptions. *)
Require Import VV.Base VV.EliasBits VV.Elias VV.EliasSpec VV.EliasProofs.
Local Open Scope N_scope.

(* Decoding what varintEliasGammaEncodeArray reported — its bytes
   dst[0 .. return value) followed by anything (the decoder needs no other
   byte), with any declared bit count from meta.totalBits up to 8 * return
   value — yields the original values; with capacity `length xs` (the
   original count) this is xs itself, with any capacity it is that prefix.
   All lists of fewer than 2^57 values 1 <= x < 2^64. *)
Theorem C02_gamma_array_roundtrip : forall xs tail srcBits cap,
  Forall (fun x => 1 <= x < 18446744073709551616) xs ->
  N.of_nat (length xs) < 144115188075855872 ->
  let e := elias_gamma_encode_array xs in
  ee_totalBits e <= srcBits <= 8 * ee_ret e ->
  elias_gamma_decode_array (ee_bytes e ++ tail) srcBits cap = firstn cap xs.
Proof. exact gamma_array_roundtrip. Qed.
Print Assumptions C02_gamma_array_roundtrip.

Theorem C02_delta_array_roundtrip : forall xs tail srcBits cap,
  Forall (fun x => 1 <= x < 18446744073709551616) xs ->
  N.of_nat (length xs) < 144115188075855872 ->
  let e := elias_delta_encode_array xs in
  ee_totalBits e <= srcBits <= 8 * ee_ret e ->
  elias_delta_decode_array (ee_bytes e ++ tail) srcBits cap = firstn cap xs.
Proof. exact delta_array_roundtrip. Qed.
Print Assumptions C02_delta_array_roundtrip.

(* single values: varintBitWriterInit, Encode, varintBitReaderInit over the
   bits Encode returned, Decode *)
Theorem C02_gamma_single_roundtrip : forall cap x tail, 1 <= x < 18446744073709551616 ->
  fst (elias_gamma_decode (br_init (bw_buffer (fst (elias_gamma_encode (bw_init cap) x)) ++ tail)
                                   (snd (elias_gamma_encode (bw_init cap) x)))) = x.
Proof. exact gamma_single_roundtrip. Qed.
Print Assumptions C02_gamma_single_roundtrip.

Theorem C02_delta_single_roundtrip : forall cap x tail, 1 <= x < 18446744073709551616 ->
  fst (elias_delta_decode (br_init (bw_buffer (fst (elias_delta_encode (bw_init cap) x)) ++ tail)
                                   (snd (elias_delta_encode (bw_init cap) x)))) = x.
Proof. exact delta_single_roundtrip. Qed.
Print Assumptions C02_delta_single_roundtrip.

(* hypotheses are satisfiable; and 0, which the codes cannot represent, is
   visibly not round-tripped by the release build's behaviour (one 0 bit) *)
Example C02_elias_example :
  (let e := elias_gamma_encode_array [1; 255; 18446744073709551615; 4096] in
   elias_gamma_decode_array (ee_bytes e) (ee_totalBits e) 4 = [1; 255; 18446744073709551615; 4096]) /\
  (let e := elias_delta_encode_array [1; 255; 18446744073709551615; 4096] in
   elias_delta_decode_array (ee_bytes e) (8 * ee_ret e) 4 = [1; 255; 18446744073709551615; 4096]) /\
  (let e := elias_gamma_encode_array [0] in
   ee_bytes e = [0] /\ ee_totalBits e = 1 /\ elias_gamma_decode_array (ee_bytes e) 1 1 = []).
Proof. vm_compute. repeat split; reflexivity. Qed.
