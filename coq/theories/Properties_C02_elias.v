(* placeholder — theorems follow *)
Require Import VV.Base VV.Elias.
