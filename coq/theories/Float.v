(* Float.v — Gallina model of src/varintFloat.{c,h}.

   A `double` is its 64-bit pattern (N < 2^64); the codec is integer
   manipulation of the sign / exponent / mantissa fields and is modelled on
   bit patterns only (no real arithmetic).  `int16_t` exponents are Z with
   the wrap `fl_s16` written where C converts back to int16_t.

   One definition per C function / macro.  The model follows the code as it
   is after the three `fix:` commits of the repo branch (F21 rounding carry,
   F22 COMMON_EXPONENT fallback, F23 auto thresholds).

   Not modelled as code: malloc/free (C18: Encode allocates 4 arrays, all
   attempted then tested together, failure -> free all, return 0 *after* the
   4 header bytes were written; Decode the same 4 + 1 `packed_mantissas` when a
   normal value exists, failure -> free all, return 0, output partially
   untouched) and the `size_mul_overflow` guards, which only fire for
   count >= 2^61 (no such array exists; the theorems bound the count). *)
Require Import VV.Base.
Local Open Scope N_scope.

(* ---------- header helpers (varintFloat.h) ---------- *)

(* varintFloatPrecisionMantissaBits *)
Definition fl_mant_bits (prec : N) : N :=
  match prec with 0 => 52 | 1 => 23 | 2 => 10 | 3 => 4 | _ => 52 end.

(* varintFloatPrecisionExponentBits *)
Definition fl_exp_bits (prec : N) : N :=
  match prec with 0 => 11 | 1 => 8 | 2 => 8 | 3 => 5 | _ => 11 end.

(* varintFloatPrecisionMaxRelativeError: ldexp(1.0, -mantissa_bits), as the
   bit pattern of that double (a normal power of two: biased exponent
   1023 - mantissa_bits, fraction 0) *)
Definition fl_max_rel_error_bits (prec : N) : N := shl64 (1023 - fl_mant_bits prec) 52.

(* varintFloatMaxEncodedSize, in size_t arithmetic *)
Definition fl_max_encoded_size (count prec : N) : N :=
  if count =? 0 then 0
  else
    let header := 4 in
    let signs := shr (add64 count 7) 3 in
    let exponents := mul64 count 9 in
    let mantissas := shr (add64 (mul64 (fl_mant_bits prec) count) 7) 3 in
    let special_bitmap := shr (add64 count 7) 3 in
    let special_values := mul64 count 8 in
    add64 (add64 (add64 (add64 (add64 header signs) exponents) mantissas) special_bitmap)
          special_values.

(* ---------- int16_t, zigzag (varintDelta.h), double comparison ---------- *)

Definition fl_s16 (z : Z) : Z := ((z + 32768) mod 65536 - 32768)%Z.

(* varintDeltaZigZag: ((uint64_t)n << 1) ^ (n < 0 ? ~0 : 0) *)
Definition fl_zigzag (n : Z) : N :=
  N.lxor (shl64 (of_s64 n) 1) (if (n <? 0)%Z then 18446744073709551615 else 0).

(* varintDeltaZigZagDecode: (int64_t)((z >> 1) ^ -(z & 1)) *)
Definition fl_unzigzag (z : N) : Z :=
  to_s64 (N.lxor (shr z 1) (if N.land z 1 =? 0 then 0 else 18446744073709551615)).

Definition fl_is_nan (x : N) : bool :=
  (N.land (shr x 52) 2047 =? 2047) && negb (N.land x 4503599627370495 =? 0).

(* C's `a < b` on two doubles given as bit patterns (IEEE-754: unordered with
   a NaN is false, -0 == +0, otherwise sign-magnitude order) *)
Definition fl_dlt (a b : N) : bool :=
  if fl_is_nan a || fl_is_nan b then false
  else
    let ma := N.land a 9223372036854775807 in
    let mb := N.land b 9223372036854775807 in
    if (ma =? 0) && (mb =? 0) then false
    else if shr a 63 =? 0 then (if shr b 63 =? 0 then ma <? mb else false)
    else (if shr b 63 =? 0 then true else mb <? ma).

(* ---------- decompose / compose ---------- *)

Record fl_parts := mk_parts { p_normal : bool; p_sign : N; p_exp : Z; p_mant : N }.

(* varintFloatDecompose *)
Definition fl_decompose (d : N) : fl_parts :=
  let sign := N.land (shr d 63) 1 in
  let exp_bits := N.land (shr d 52) 2047 in
  let mantissa := N.land d 4503599627370495 in
  if exp_bits =? 2047 then mk_parts false sign 2047%Z mantissa
  else if exp_bits =? 0 then
    (if mantissa =? 0 then mk_parts false sign 0%Z mantissa
     else mk_parts false sign (1 - 1023)%Z mantissa)
  else mk_parts true sign (fl_s16 (Z.of_N exp_bits - 1023))
                (N.lor mantissa 4503599627370496).

(* varintFloatCompose(sign, exponent, mantissa); exponent is an int16_t *)
Definition fl_compose (sign : N) (exponent : Z) (mantissa : N) : N :=
  if (exponent =? 0)%Z && (mantissa =? 0) then shl64 sign 63
  else
    let biased_exp := (exponent + 1023)%Z in
    if (biased_exp <=? 0)%Z then shl64 sign 63
    else if (2047 <=? biased_exp)%Z then N.lor (shl64 sign 63) (shl64 2047 52)
    else N.lor (N.lor (shl64 sign 63) (shl64 (Z.to_N biased_exp) 52))
               (N.land mantissa 4503599627370495).

(* truncateMantissa(mantissa, from_bits, to_bits): round to nearest, half up *)
Definition fl_truncate (mantissa from_bits to_bits : N) : N :=
  if from_bits <=? to_bits then mantissa
  else
    let shift := from_bits - to_bits in
    let rounding := shl64 1 (shift - 1) in
    shr (add64 mantissa rounding) shift.

(* expandMantissa(mantissa, from_bits, to_bits) *)
Definition fl_expand (mantissa from_bits to_bits : N) : N :=
  if to_bits <=? from_bits then mantissa
  else shl64 mantissa (to_bits - from_bits).

(* ---------- packBits / unpackBits ----------
   C writes bit `bit` of value i at output[byte_offset + (bit + bit_in_byte)/8],
   bit (bit + bit_in_byte) % 8, where bit_offset = 8*byte_offset + bit_in_byte
   = i * bits_per_value: i.e. at global bit index i*bits_per_value + bit,
   LSB-first inside each byte, after a memset of (count*bits+7)/8 bytes.  That
   is: the concatenation of the low `w` bits of every value, LSB first, cut
   into bytes, zero padded. *)
Fixpoint fl_bits_of (w : nat) (v : N) : list bool :=
  match w with
  | O => []
  | S w' => N.odd v :: fl_bits_of w' (N.div2 v)
  end.

Fixpoint fl_of_bits (l : list bool) : N :=
  match l with
  | [] => 0
  | b :: t => (if b then 1 else 0) + 2 * fl_of_bits t
  end.

Fixpoint fl_bytes_of_bits (n : nat) (l : list bool) : list N :=
  match n with
  | O => []
  | S n' => fl_of_bits (firstn 8 l) :: fl_bytes_of_bits n' (skipn 8 l)
  end.

Definition fl_pack (w : nat) (vs : list N) : list N :=
  fl_bytes_of_bits ((length vs * w + 7) / 8) (flat_map (fl_bits_of w) vs).

(* first n bytes of the input, a missing byte reads as 0 (= byte_at) *)
Fixpoint fl_take_pad (n : nat) (z : list N) : list N :=
  match n with
  | O => []
  | S n' => match z with
            | [] => 0 :: fl_take_pad n' []
            | b :: t => b :: fl_take_pad n' t
            end
  end.

Fixpoint fl_chunk_vals (w count : nat) (bs : list bool) : list N :=
  match count with
  | O => []
  | S c => fl_of_bits (firstn w bs) :: fl_chunk_vals w c (skipn w bs)
  end.

Definition fl_unpack (w count : nat) (z : list N) : list N :=
  fl_chunk_vals w count (flat_map (fl_bits_of 8) (fl_take_pad ((count * w + 7) / 8) z)).

(* ---------- encoder ---------- *)

(* what the decompose loop of varintFloatEncode leaves in special_flags[i],
   signs[i], exponents[i], mantissas[i] (+ the value itself, stored raw when
   special) *)
Record fl_elem := mk_elem { e_special : bool; e_sign : N; e_exp : Z; e_mant : N; e_raw : N }.

Definition fl_prepare (mant_bits : N) (d : N) : fl_elem :=
  let p := fl_decompose d in
  if p_normal p then
    if mant_bits =? 52 then
      mk_elem false (p_sign p) (p_exp p) (N.land (p_mant p) 4503599627370495) d
    else
      let t := fl_truncate (p_mant p) 53 mant_bits in
      if shr t mant_bits =? 0 then mk_elem false (p_sign p) (p_exp p) t d
      else (* rounding carried out of the top bit: renormalize *)
        mk_elem false (p_sign p) (fl_s16 (p_exp p + 1)) (shr t 1) d
  else mk_elem true (p_sign p) (p_exp p) (p_mant p) d.

Definition fl_flag (e : fl_elem) : N := if e_special e then 1 else 0.
Definition fl_normals (es : list fl_elem) : list fl_elem := filter (fun e => negb (e_special e)) es.
Definition fl_specials (es : list fl_elem) : list fl_elem := filter e_special es.

(* width byte + varintExternalPutFixedWidth(zigzag) of one exponent *)
Definition fl_put_exp (e : Z) : list N :=
  let zz := fl_zigzag e in
  let w := ext_width zz in
  N.of_nat w :: le_bytes w zz.

Definition fl_min_exp (es : list fl_elem) : Z :=
  fold_left (fun acc e => if e_special e then acc
                          else if (e_exp e <? acc)%Z then e_exp e else acc) es 32767%Z.
Definition fl_max_exp (es : list fl_elem) : Z :=
  fold_left (fun acc e => if e_special e then acc
                          else if (acc <? e_exp e)%Z then e_exp e else acc) es (-32768)%Z.

(* the mode actually used (F22 fix): COMMON_EXPONENT falls back to INDEPENDENT
   when the one-byte offsets cannot hold the spread *)
Definition fl_exp_mode (mode : N) (es : list fl_elem) : N :=
  if mode =? 1 then
    if (0 <? N.of_nat (length (fl_normals es))) && (255 <? fl_max_exp es - fl_min_exp es)%Z
    then 0 else 1
  else mode.

Definition fl_exps_indep (es : list fl_elem) : list N :=
  flat_map (fun e => if e_special e then [] else fl_put_exp (e_exp e)) es.

Definition fl_exps_common (es : list fl_elem) : list N :=
  if 0 <? N.of_nat (length (fl_normals es)) then
    let min_exp := fl_min_exp es in
    fl_put_exp min_exp ++
    flat_map (fun e => if e_special e then []
                       else [Z.to_N ((e_exp e - min_exp) mod 256)%Z]) es
  else [].

Fixpoint fl_exps_delta_rest (prev : Z) (es : list fl_elem) : list N :=
  match es with
  | [] => []
  | e :: t =>
      if e_special e then fl_exps_delta_rest prev t
      else fl_put_exp (fl_s16 (e_exp e - prev)) ++ fl_exps_delta_rest (e_exp e) t
  end.
Fixpoint fl_exps_delta (es : list fl_elem) : list N :=
  match es with
  | [] => []
  | e :: t =>
      if e_special e then fl_exps_delta t
      else fl_put_exp (e_exp e) ++ fl_exps_delta_rest (e_exp e) t
  end.

Definition fl_exps (exp_mode : N) (es : list fl_elem) : list N :=
  if exp_mode =? 0 then fl_exps_indep es
  else if exp_mode =? 1 then fl_exps_common es
  else fl_exps_delta es.

Definition fl_mants (mant_bits : N) (es : list fl_elem) : list N :=
  let ns := fl_normals es in
  if 0 <? N.of_nat (length ns) then fl_pack (N.to_nat mant_bits) (map e_mant ns) else [].

Definition fl_special_bytes (es : list fl_elem) : list N :=
  flat_map (fun e => le_bytes 8 (e_raw e)) (fl_specials es).

(* varintFloatEncode: the bytes written (precision / mode are the enum values
   as integers) *)
Definition fl_encode (ds : list N) (prec mode : N) : list N :=
  match ds with
  | [] => []
  | _ =>
    let mant_bits := fl_mant_bits prec in
    let es := map (fl_prepare mant_bits) ds in
    let exp_mode := fl_exp_mode mode es in
    [u8 prec; fl_exp_bits prec; mant_bits; u8 exp_mode]
      ++ fl_pack 1 (map fl_flag es)
      ++ fl_pack 1 (map e_sign es)
      ++ fl_exps exp_mode es
      ++ fl_mants mant_bits es
      ++ fl_special_bytes es
  end.

(* its return value `p - output`, following the pointer increments of the C *)
Definition fl_encode_ret (ds : list N) (prec mode : N) : N :=
  let count := N.of_nat (length ds) in
  if count =? 0 then 0
  else
    let mant_bits := fl_mant_bits prec in
    let es := map (fl_prepare mant_bits) ds in
    let normal_count := N.of_nat (length (fl_normals es)) in
    4 + (count + 7) / 8 + (count + 7) / 8
      + N.of_nat (length (fl_exps (fl_exp_mode mode es) es))
      + (if 0 <? normal_count then (normal_count * mant_bits + 7) / 8 else 0)
      + 8 * N.of_nat (length (fl_specials es)).

(* varintFloatEncodeAuto: (selected precision, bytes) *)
Definition fl_auto_precision (err : N) : N :=
  if fl_dlt err (fl_max_rel_error_bits 1) then 0
  else if fl_dlt err (fl_max_rel_error_bits 2) then 1
  else if fl_dlt err (fl_max_rel_error_bits 3) then 2
  else 3.
Definition fl_encode_auto (ds : list N) (err mode : N) : N * list N :=
  let prec := fl_auto_precision err in (prec, fl_encode ds prec mode).

(* ---------- decoder ----------
   None = the C has undefined behaviour on this input (an exponent width byte
   outside 1..8 reaches varintExternalGet's unreachable default / overruns its
   8-byte result; a mantissa width above 64 shifts 1ULL by >= 64).  Bytes
   past the end of `z` read as 0; the number of bytes consumed is returned so
   that an over-read is visible as consumed > length z. *)
Definition fl_get_exp (z : list N) : option (Z * nat) :=
  let w := byte_at z 0 in
  if (1 <=? w) && (w <=? 8) then
    let k := N.to_nat w in
    Some (fl_unzigzag (of_le (fl_take_pad k (tl z))), S k)
  else None.

Fixpoint fl_dec_indep (flags : list N) (z : list N) : option (list Z * nat) :=
  match flags with
  | [] => Some ([], O)
  | f :: t =>
      if f =? 0 then
        match fl_get_exp z with
        | None => None
        | Some (e, k) =>
            match fl_dec_indep t (skipn k z) with
            | None => None
            | Some (es, n) => Some (fl_s16 e :: es, (k + n)%nat)
            end
        end
      else
        match fl_dec_indep t z with
        | None => None
        | Some (es, n) => Some (0%Z :: es, n)
        end
  end.

Fixpoint fl_dec_common_deltas (base : Z) (flags : list N) (z : list N) : list Z * nat :=
  match flags with
  | [] => ([], O)
  | f :: t =>
      if f =? 0 then
        let r := fl_dec_common_deltas base t (tl z) in
        (fl_s16 (base + Z.of_N (byte_at z 0)) :: fst r, S (snd r))
      else
        let r := fl_dec_common_deltas base t z in
        (0%Z :: fst r, snd r)
  end.

Definition fl_count_normal (flags : list N) : nat := length (filter (fun f => f =? 0) flags).

Definition fl_dec_common (flags : list N) (z : list N) : option (list Z * nat) :=
  if (0 <? fl_count_normal flags)%nat then
    match fl_get_exp z with
    | None => None
    | Some (e, k) =>
        let r := fl_dec_common_deltas (fl_s16 e) flags (skipn k z) in
        Some (fst r, (k + snd r)%nat)
    end
  else Some (map (fun _ => 0%Z) flags, O).

Fixpoint fl_dec_delta_rest (prev : Z) (flags : list N) (z : list N) : option (list Z * nat) :=
  match flags with
  | [] => Some ([], O)
  | f :: t =>
      if f =? 0 then
        match fl_get_exp z with
        | None => None
        | Some (d, k) =>
            let e := fl_s16 (prev + fl_s16 d) in
            match fl_dec_delta_rest e t (skipn k z) with
            | None => None
            | Some (es, n) => Some (e :: es, (k + n)%nat)
            end
        end
      else
        match fl_dec_delta_rest prev t z with
        | None => None
        | Some (es, n) => Some (0%Z :: es, n)
        end
  end.

Fixpoint fl_dec_delta (flags : list N) (z : list N) : option (list Z * nat) :=
  match flags with
  | [] => Some ([], O)
  | f :: t =>
      if f =? 0 then
        match fl_get_exp z with
        | None => None
        | Some (e0, k) =>
            let e := fl_s16 e0 in
            match fl_dec_delta_rest e t (skipn k z) with
            | None => None
            | Some (es, n) => Some (e :: es, (k + n)%nat)
            end
        end
      else
        match fl_dec_delta t z with
        | None => None
        | Some (es, n) => Some (0%Z :: es, n)
        end
  end.

Definition fl_dec_exps (mode : N) (flags : list N) (z : list N) : option (list Z * nat) :=
  if mode =? 0 then fl_dec_indep flags z
  else if mode =? 1 then fl_dec_common flags z
  else fl_dec_delta flags z.

Fixpoint fl_read_specials (n : nat) (z : list N) : list N :=
  match n with
  | O => []
  | S n' => of_le (fl_take_pad 8 z) :: fl_read_specials n' (skipn 8 z)
  end.

(* mantissas[i] as rebuilt by the decoder from a packed field *)
Definition fl_mant_of (mant_bits : N) (packed : N) : N :=
  if mant_bits =? 52 then N.lor packed 4503599627370496
  else fl_expand packed mant_bits 53.

(* the two output loops: specials copied raw, normals composed *)
Fixpoint fl_assemble (mant_bits : N) (flags signs : list N) (exps : list Z)
                     (pm sp : list N) : list N :=
  match flags, signs, exps with
  | f :: ft, s :: st, e :: et =>
      if f =? 0 then
        fl_compose s e (fl_mant_of mant_bits (hd 0 pm)) :: fl_assemble mant_bits ft st et (tl pm) sp
      else hd 0 sp :: fl_assemble mant_bits ft st et pm (tl sp)
  | _, _, _ => []
  end.

(* varintFloatDecode(input, count, output): (return value, output array) *)
Definition fl_decode (z : list N) (count : nat) : option (N * list N) :=
  match count with
  | O => Some (0, [])
  | _ =>
    let mant_bits := byte_at z 2 in
    let mode := byte_at z 3 in
    let nb := ((count + 7) / 8)%nat in
    let z1 := skipn 4 z in
    let flags := fl_unpack 1 count z1 in
    let z2 := skipn nb z1 in
    let signs := fl_unpack 1 count z2 in
    let z3 := skipn nb z2 in
    match fl_dec_exps mode flags z3 with
    | None => None
    | Some (exps, k3) =>
        let z4 := skipn k3 z3 in
        let ncount := fl_count_normal flags in
        if (0 <? ncount)%nat && (64 <? mant_bits) then None
        else
          let k4 := if (0 <? ncount)%nat then ((ncount * N.to_nat mant_bits + 7) / 8)%nat else O in
          let pm := if (0 <? ncount)%nat then fl_unpack (N.to_nat mant_bits) ncount z4 else [] in
          let z5 := skipn k4 z4 in
          let nsp := (count - ncount)%nat in
          let sp := fl_read_specials nsp z5 in
          Some (N.of_nat (4 + nb + nb + k3 + k4 + 8 * nsp),
                fl_assemble mant_bits flags signs exps pm sp)
    end
  end.

(* EXTRACT: fl_mant_bits fl_exp_bits fl_max_rel_error_bits fl_max_encoded_size
   fl_decompose fl_compose fl_truncate fl_expand fl_pack fl_unpack fl_encode fl_encode_ret
   fl_auto_precision fl_encode_auto fl_decode fl_dlt fl_zigzag fl_unzigzag
   p_normal p_sign p_exp p_mant *)
