(* TaggedProofs.v — lemmas about the Tagged model. *)
Require Import VV.Base VV.BaseProofs VV.Tagged.
From Coq Require Import Lia ZifyBool ZifyN ZifyNat.
Local Open Scope N_scope.
Ltac Zify.zify_post_hook ::= Z.div_mod_to_equations.

Ltac kill_ifs :=
  repeat match goal with
  | |- context [if ?b then _ else _] =>
      let E := fresh "E" in destruct b eqn:E; try (exfalso; lia)
  end.

Lemma shl64_small b k : b * 2^k < 18446744073709551616 -> shl64 b k = b * 2^k.
Proof. intro H. unfold shl64. apply N.mod_small. exact H. Qed.

Lemma mul_pow_mod0 a j k : k <= j -> (a * 2^j) mod 2^k = 0.
Proof. intro H. replace j with ((j-k)+k) by lia. rewrite N.pow_add_r, N.mul_assoc.
  apply N.mod_mul. apply N.pow_nonzero. lia. Qed.

Lemma be3 a b c : a < 256 -> b < 256 -> c < 256 ->
  bor (bor (shl64 a 16) (shl64 b 8)) c = a*65536+b*256+c.
Proof. intros. rewrite !shl64_small by lia. unfold bor.
  rewrite (lor_add_mod0 (a*2^16) (b*2^8) 16) by lia.
  rewrite (lor_add_mod0 _ c 8) by lia. lia. Qed.

Lemma be4 a b c d : a < 256 -> b < 256 -> c < 256 -> d < 256 ->
  bor (bor (bor (shl64 a 24) (shl64 b 16)) (shl64 c 8)) d = a*16777216+b*65536+c*256+d.
Proof. intros. rewrite !shl64_small by lia. unfold bor.
  rewrite (lor_add_mod0 (a*2^24) (b*2^16) 24) by (try apply mul_pow_mod0; lia).
  rewrite (lor_add_mod0 _ (c*2^8) 16) by (try lia).
  rewrite (lor_add_mod0 _ d 8) by lia. lia. Qed.

Lemma be4_lt a b c d : a < 256 -> b < 256 -> c < 256 -> d < 256 ->
  a*16777216+b*65536+c*256+d < 4294967296.
Proof. lia. Qed.

Lemma be4_of x : x < 4294967296 ->
  u8 (shr x 24) * 16777216 + u8 (shr x 16) * 65536 + u8 (shr x 8) * 256 + u8 x = x.
Proof. intro H. unfold u8, shr. lia. Qed.

Lemma be3_of x : x < 16777216 ->
  u8 (shr x 16) * 65536 + u8 (shr x 8) * 256 + u8 x = x.
Proof. intro H. unfold u8, shr. lia. Qed.

Lemma shl_lor_small x k c : x * 2^k < 18446744073709551616 -> c < 2^k ->
  bor (shl64 x k) c = x * 2^k + c.
Proof. intros Hx Hc. unfold bor. rewrite shl64_small by assumption.
  apply lor_add_disjoint. assumption. Qed.

Lemma shl_lor2 x c d : x < 4294967296 -> c < 256 -> d < 256 ->
  bor (bor (shl64 x 16) (shl64 c 8)) d = x * 65536 + c * 256 + d.
Proof. intros. rewrite !shl64_small by lia. unfold bor.
  rewrite (lor_add_mod0 (x*2^16) (c*2^8) 16) by (try apply mul_pow_mod0; lia).
  rewrite (lor_add_mod0 _ d 8) by lia. lia. Qed.

Lemma shl_lor3 x b c d : x < 4294967296 -> b < 256 -> c < 256 -> d < 256 ->
  bor (bor (bor (shl64 x 24) (shl64 b 16)) (shl64 c 8)) d
  = x * 16777216 + b * 65536 + c * 256 + d.
Proof. intros. rewrite !shl64_small by lia. unfold bor.
  rewrite (lor_add_mod0 (x*2^24) (b*2^16) 24) by (try apply mul_pow_mod0; lia).
  rewrite (lor_add_mod0 _ (c*2^8) 16) by (try lia).
  rewrite (lor_add_mod0 _ d 8) by lia. lia. Qed.

(* decomposition of x into 32-bit halves *)
Lemma split32 x : x < 18446744073709551616 ->
  (x / 2^32) mod 4294967296 * 4294967296 + x mod 4294967296 = x.
Proof. lia. Qed.

(* ---------- round trip, one lemma per length class ---------- *)

Ltac open_put :=
  unfold tagged_put64, tagged_len; cbv zeta; unfold u32, shr.
Ltac open_get :=
  unfold tagged_get, write32; cbv zeta; cbn [byte_at nth app].

Lemma tagged_rt_1 x tl n : x <= 240 -> (1 <= n)%Z ->
  tagged_get (tagged_put64 x ++ tl) n = (tagged_len x, x).
Proof.
  intros Hx Hn. open_put. destruct (x <=? 240) eqn:E1; [|lia].
  open_get. unfold u8. kill_ifs. f_equal; lia.
Qed.

Lemma tagged_rt_2 x tl n : 240 < x <= 2287 -> (2 <= n)%Z ->
  tagged_get (tagged_put64 x ++ tl) n = (tagged_len x, x).
Proof.
  intros Hx Hn. open_put.
  destruct (x <=? 240) eqn:E1; [lia|]. destruct (x <=? 2287) eqn:E2; [|lia].
  open_get. unfold u8. kill_ifs. f_equal; lia.
Qed.

Lemma tagged_rt_3 x tl n : 2287 < x <= 67823 -> (3 <= n)%Z ->
  tagged_get (tagged_put64 x ++ tl) n = (tagged_len x, x).
Proof.
  intros Hx Hn. open_put.
  destruct (x <=? 240) eqn:E1; [lia|]. destruct (x <=? 2287) eqn:E2; [lia|].
  destruct (x <=? 67823) eqn:E3; [|lia].
  open_get. unfold u8. kill_ifs. f_equal; lia.
Qed.

Ltac split_x :=
  match goal with
  | |- context [tagged_put64 ?x] =>
      open_put;
      destruct (x <=? 240) eqn:?E; [lia|]; destruct (x <=? 2287) eqn:?E; [lia|];
      destruct (x <=? 67823) eqn:?E; [lia|]
  end.

Lemma tagged_rt_4 x tl n : 67823 < x <= 16777215 -> (4 <= n)%Z ->
  tagged_get (tagged_put64 x ++ tl) n = (tagged_len x, x).
Proof.
  intros Hx Hn. split_x.
  destruct (_ =? 0) eqn:E4; [|lia]. destruct (_ <=? 16777215) eqn:E5; [|lia].
  open_get. kill_ifs.
  rewrite be3 by apply u8_lt. fold (shr (x mod 4294967296) 16) (shr (x mod 4294967296) 8).
  rewrite be3_of by lia. f_equal. lia.
Qed.

Lemma tagged_rt_5 x tl n : 16777215 < x <= 4294967295 -> (5 <= n)%Z ->
  tagged_get (tagged_put64 x ++ tl) n = (tagged_len x, x).
Proof.
  intros Hx Hn. split_x.
  destruct (_ =? 0) eqn:E4; [|lia]. destruct (_ <=? 16777215) eqn:E5; [lia|].
  open_get. kill_ifs.
  rewrite (be4 (u8 _) (u8 _) (u8 _) (u8 _)) by apply u8_lt. rewrite be4_of by lia. f_equal. lia.
Qed.

Ltac split_w :=
  destruct (_ =? 0) eqn:?E; [lia|].

Lemma be2_of x : x < 65536 -> u8 (shr x 8) * 256 + u8 x = x.
Proof. intro H. unfold u8, shr. lia. Qed.
Lemma be1_of x : x < 256 -> u8 x = x.
Proof. intro H. unfold u8. lia. Qed.

Ltac u8_bounds :=
  repeat match goal with
  | |- context [u8 ?e] =>
      lazymatch goal with
      | _ : u8 e < 256 |- _ => fail
      | _ => pose proof (u8_lt e)
      end
  end.

Lemma tagged_rt_6 x tl n : 4294967295 < x <= 1099511627775 -> (6 <= n)%Z ->
  tagged_get (tagged_put64 x ++ tl) n = (tagged_len x, x).
Proof.
  intros Hx Hn. split_x. split_w.
  destruct (_ <=? 255) eqn:E5; [|lia].
  open_get. kill_ifs.
  rewrite (be4 (u8 _) (u8 _) (u8 _) (u8 _)) by apply u8_lt.
  pose proof (be4_of (x mod 4294967296)) as Hy.
  pose proof (be1_of ((x / 2 ^ 32) mod 4294967296)) as Hw.
  pose proof (split32 x) as Hs.
  set (w := (x / 2 ^ 32) mod 4294967296) in *.
  set (y := x mod 4294967296) in *.
  assert (y < 4294967296) by (subst y; lia).
  assert (w <= 255) by lia.
  clearbody w y.
  pose proof (u8_lt w); pose proof (u8_lt y); pose proof (u8_lt (shr y 8));
  pose proof (u8_lt (shr y 16)); pose proof (u8_lt (shr y 24)).
  rewrite shl_lor_small by lia.
  f_equal. lia.
Qed.

Lemma tagged_rt_7 x tl n : 1099511627775 < x <= 281474976710655 -> (7 <= n)%Z ->
  tagged_get (tagged_put64 x ++ tl) n = (tagged_len x, x).
Proof.
  intros Hx Hn. split_x. split_w.
  destruct (_ <=? 255) eqn:E5; [lia|]. destruct (_ <=? 65535) eqn:E6; [|lia].
  open_get. kill_ifs.
  rewrite (be4 (u8 _) (u8 _) (u8 _) (u8 _)) by apply u8_lt.
  pose proof (be4_of (x mod 4294967296)) as Hy.
  pose proof (be2_of ((x / 2 ^ 32) mod 4294967296)) as Hw.
  pose proof (split32 x) as Hs.
  fold (shr ((x / 2 ^ 32) mod 4294967296) 8).
  set (w := (x / 2 ^ 32) mod 4294967296) in *.
  set (y := x mod 4294967296) in *.
  assert (y < 4294967296) by (subst y; lia).
  assert (w <= 65535) by lia.
  clearbody w y.
  pose proof (u8_lt w); pose proof (u8_lt (shr w 8)); pose proof (u8_lt y); pose proof (u8_lt (shr y 8));
  pose proof (u8_lt (shr y 16)); pose proof (u8_lt (shr y 24)).
  rewrite shl_lor2 by lia.
  f_equal. lia.
Qed.

Lemma tagged_rt_8 x tl n : 281474976710655 < x <= 72057594037927935 -> (8 <= n)%Z ->
  tagged_get (tagged_put64 x ++ tl) n = (tagged_len x, x).
Proof.
  intros Hx Hn. split_x. split_w.
  destruct (_ <=? 255) eqn:E5; [lia|]. destruct (_ <=? 65535) eqn:E6; [lia|].
  destruct (_ <=? 16777215) eqn:E7; [|lia].
  open_get. kill_ifs.
  rewrite (be4 (u8 _) (u8 _) (u8 _) (u8 _)) by apply u8_lt.
  pose proof (be4_of (x mod 4294967296)) as Hy.
  pose proof (be3_of ((x / 2 ^ 32) mod 4294967296)) as Hw.
  pose proof (split32 x) as Hs.
  fold (shr ((x / 2 ^ 32) mod 4294967296) 8) (shr ((x / 2 ^ 32) mod 4294967296) 16).
  set (w := (x / 2 ^ 32) mod 4294967296) in *.
  set (y := x mod 4294967296) in *.
  assert (y < 4294967296) by (subst y; lia).
  assert (w <= 16777215) by lia.
  clearbody w y.
  pose proof (u8_lt w); pose proof (u8_lt (shr w 8)); pose proof (u8_lt (shr w 16));
  pose proof (u8_lt y); pose proof (u8_lt (shr y 8));
  pose proof (u8_lt (shr y 16)); pose proof (u8_lt (shr y 24)).
  rewrite shl_lor3 by lia.
  f_equal. lia.
Qed.

Lemma tagged_rt_9 x tl n : 72057594037927935 < x < 18446744073709551616 -> (9 <= n)%Z ->
  tagged_get (tagged_put64 x ++ tl) n = (tagged_len x, x).
Proof.
  intros Hx Hn. split_x. split_w.
  destruct (_ <=? 255) eqn:E5; [lia|]. destruct (_ <=? 65535) eqn:E6; [lia|].
  destruct (_ <=? 16777215) eqn:E7; [lia|].
  open_get. kill_ifs.
  rewrite !(be4 (u8 _) (u8 _) (u8 _) (u8 _)) by apply u8_lt. rewrite !be4_of by lia.
  rewrite land_ones32 by lia.
  rewrite shl_lor_small by lia.
  f_equal. lia.
Qed.

Theorem tagged_roundtrip x tl n : x < 18446744073709551616 ->
  (Z.of_N (tagged_len x) <= n)%Z ->
  tagged_get (tagged_put64 x ++ tl) n = (tagged_len x, x).
Proof.
  intros Hx Hn.
  destruct (N.le_gt_cases x 240); [apply tagged_rt_1; [lia|] |].
  2: destruct (N.le_gt_cases x 2287); [apply tagged_rt_2; [lia|] |].
  3: destruct (N.le_gt_cases x 67823); [apply tagged_rt_3; [lia|] |].
  4: destruct (N.le_gt_cases x 16777215); [apply tagged_rt_4; [lia|] |].
  5: destruct (N.le_gt_cases x 4294967295); [apply tagged_rt_5; [lia|] |].
  6: destruct (N.le_gt_cases x 1099511627775); [apply tagged_rt_6; [lia|] |].
  7: destruct (N.le_gt_cases x 281474976710655); [apply tagged_rt_7; [lia|] |].
  8: destruct (N.le_gt_cases x 72057594037927935); [apply tagged_rt_8; [lia|] | apply tagged_rt_9; [lia|] ].
  all: revert Hn; unfold tagged_len, u32, shr; cbv zeta; kill_ifs; lia.
Qed.
