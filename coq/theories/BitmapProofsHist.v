(* BitmapProofsHist.v — C08: any history of operations over a pool of bitmaps
   answers like the same history over mathematical sets (characteristic
   functions on 0..65535). *)
Require Import VV.Base VV.BaseProofs VV.Bitmap VV.BitmapSpec VV.BitmapLemmas VV.BitmapProofsBits VV.BitmapProofsArr
  VV.BitmapProofsRuns VV.BitmapProofs VV.BitmapProofsSer.
From Coq Require Import Lia ZifyBool ZifyN ZifyNat Sorted Arith.
Local Open Scope N_scope.
Ltac Zify.zify_post_hook ::= Z.div_mod_to_equations.

(* ---- refinement ---- *)
Definition rel (s : bm_state) (P : set16) : Prop :=
  bm_Inv s /\ forall x, In x (bm_abs s) <-> (x < 65536 /\ P x = true).

Lemma rel_elems s P : rel s P -> bm_abs s = s_elems P.
Proof.
  intros [H1 H2]. unfold s_elems, universe. apply sorted_is_filter; [apply inv_sorted; exact H1|].
  intro x. rewrite (H2 x). replace (N.of_nat (N.to_nat 65536)) with 65536 by lia. tauto.
Qed.

Lemma rel_view s P : rel s P -> bm_view s = s_view P.
Proof.
  intro H. unfold bm_view, s_view, bm_cardinality, bm_is_empty, bm_to_array.
  rewrite <- (rel_elems s P H). fold (bm_abs s). rewrite <- (inv_card s (proj1 H)). reflexivity.
Qed.

Lemma rel_create : rel bm_create (fun _ => false).
Proof. split; [apply inv_create|]. intro x. rewrite abs_create. cbn [In]. split; [tauto|intros [_ Hd]; discriminate Hd]. Qed.

Lemma rel_mem s P x : rel s P -> x < 65536 -> (In x (bm_abs s) <-> P x = true).
Proof. intros [_ H] Hx. rewrite (H x). tauto. Qed.

Definition prel (pool : list bm_state) (spool : list set16) : Prop := Forall2 rel pool spool.

Lemma prel_get pool spool i : prel pool spool -> rel (getb pool i) (gets spool i).
Proof.
  intro H. revert i. induction H as [|s P pool spool Hr H IH]; intro i.
  - unfold getb, gets. destruct i; apply rel_create.
  - destruct i as [|i]; [exact Hr|apply IH].
Qed.

Lemma prel_upd pool spool i s P : prel pool spool -> rel s P -> prel (upd pool i s) (upd spool i P).
Proof.
  intros H Hr. revert i. induction H as [|s0 P0 pool spool Hr0 H IH]; intro i; [constructor|].
  destruct i as [|i]; cbn [upd]; constructor; [exact Hr|exact H|exact Hr0|apply IH].
Qed.

Lemma prel_views pool spool : prel pool spool -> map bm_view pool = map s_view spool.
Proof. intro H. induction H as [|s P pool spool Hr H IH]; [reflexivity|]. cbn [map]. rewrite (rel_view s P Hr), IH. reflexivity. Qed.

Lemma bool_iff (a b : bool) : (a = true <-> b = true) -> a = b.
Proof. destruct a, b; intuition congruence. Qed.

Lemma step_refines pool spool o : prel pool spool -> op_wf o ->
  prel (fst (bm_step pool o)) (fst (s_step spool o)) /\ snd (bm_step pool o) = snd (s_step spool o).
Proof.
  intros H W. destruct o; cbn [bm_step s_step fst snd op_wf] in *.
  - (* Add *)
    pose proof (prel_get pool spool i H) as [G1 G2]. destruct (add_spec _ v G1 W) as (A1 & A2 & A3).
    split.
    + apply prel_upd; [exact H|]. split; [exact A1|]. intro x. rewrite (A2 x), (G2 x).
      destruct (N.eqb_spec x v) as [->|Hne]; cbn [orb]; [tauto|]. split; [intros [E|E]; [congruence|exact E]|tauto].
    + f_equal. apply bool_iff. rewrite A3, (G2 v). destruct (gets spool i v); cbn [negb]; split; try tauto; try discriminate.
      intros _ [_ Hd]. discriminate Hd.
  - (* Remove *)
    pose proof (prel_get pool spool i H) as [G1 G2]. destruct (remove_spec _ v G1 W) as (A1 & A2 & A3).
    split.
    + apply prel_upd; [exact H|]. split; [exact A1|]. intro x. rewrite (A2 x), (G2 x).
      destruct (N.eqb_spec x v) as [->|Hne]; cbn [negb]; [rewrite andb_false_r|rewrite andb_true_r]; [|tauto].
      split; [intros [_ Hd]; congruence|intros [_ Hd]; discriminate Hd].
    + f_equal. apply bool_iff. rewrite A3, (G2 v). tauto.
  - (* Contains *)
    pose proof (prel_get pool spool i H) as Hr. split; [exact H|]. f_equal. apply bool_iff.
    rewrite (contains_spec _ v (proj1 Hr) W). apply (rel_mem _ _ v Hr W).
  - (* AddRange *)
    pose proof (prel_get pool spool i H) as [G1 G2]. destruct W as [W1 W2].
    destruct (add_range_spec _ lo hi G1 W1 W2) as (A1 & A2). split; [|reflexivity].
    apply prel_upd; [exact H|]. split; [exact A1|]. intro x. rewrite (A2 x), (G2 x).
    destruct ((lo <=? x) && (x <? hi)) eqn:E; cbn [orb].
    + split; [intros _; split; [lia|reflexivity]|intros _; left; lia].
    + split; [intros [Hd|Hd]; [lia|exact Hd]|intro Hd; right; exact Hd].
  - (* RemoveRange *)
    pose proof (prel_get pool spool i H) as [G1 G2]. destruct W as [W1 W2].
    destruct (remove_range_spec _ lo hi G1 W1 W2) as (A1 & A2). split; [|reflexivity].
    apply prel_upd; [exact H|]. split; [exact A1|]. intro x. rewrite (A2 x), (G2 x).
    destruct ((lo <=? x) && (x <? hi)) eqn:E; cbn [negb]; [rewrite andb_false_r|rewrite andb_true_r].
    + split; [intros [_ Hd]; exfalso; apply Hd; lia|intros [_ Hd]; discriminate Hd].
    + split; [intros [Hd _]; exact Hd|intro Hd; split; [exact Hd|lia]].
  - (* Clear *)
    pose proof (prel_get pool spool i H) as [G1 G2]. destruct (inv_clear _ G1) as [A1 A2]. split; [|reflexivity].
    apply prel_upd; [exact H|]. split; [exact A1|]. intro x. rewrite A2. cbn [In].
    split; [tauto|intros [_ Hd]; discriminate Hd].
  - (* Optimize *)
    split; [|reflexivity]. unfold bm_optimize.
    assert (E : upd pool i (getb pool i) = pool).
    { clear. revert i. induction pool as [|s pool IH]; intro i; [reflexivity|]. destruct i as [|i]; cbn [upd]; [reflexivity|].
      f_equal. apply IH. }
    rewrite E. exact H.
  - (* AddMany *)
    pose proof (prel_get pool spool i H) as [G1 G2]. destruct (add_many_spec _ vs G1 W) as (A1 & A2). split; [|reflexivity].
    apply prel_upd; [exact H|]. split; [exact A1|]. intro x. rewrite (A2 x), (G2 x).
    destruct (existsb (N.eqb x) vs) eqn:E; cbn [orb].
    + apply (proj1 (existsb_eqb_in x vs)) in E. split; [intros _; split; [apply W; exact E|reflexivity]|intros _; left; exact E].
    + split; [intros [Hd|Hd]; [apply (proj2 (existsb_eqb_in x vs)) in Hd; congruence|exact Hd]|intro Hd; right; exact Hd].
  - (* Clone *)
    split; [|reflexivity]. rewrite clone_eq. apply prel_upd; [exact H|apply prel_get; exact H].
  - (* And *)
    pose proof (prel_get pool spool j H) as [G1 G2]. pose proof (prel_get pool spool k H) as [K1 K2].
    destruct (and_spec _ _ G1 K1) as (A1 & A2). split; [|reflexivity].
    apply prel_upd; [exact H|]. split; [exact A1|]. intro x. rewrite (A2 x), (G2 x), (K2 x).
    destruct (gets spool j x), (gets spool k x); cbn [andb]; intuition congruence.
  - (* Or *)
    pose proof (prel_get pool spool j H) as [G1 G2]. pose proof (prel_get pool spool k H) as [K1 K2].
    destruct (or_spec _ _ G1 K1) as (A1 & A2). split; [|reflexivity].
    apply prel_upd; [exact H|]. split; [exact A1|]. intro x. rewrite (A2 x), (G2 x), (K2 x).
    destruct (gets spool j x), (gets spool k x); cbn [orb]; intuition congruence.
  - (* Xor *)
    pose proof (prel_get pool spool j H) as [G1 G2]. pose proof (prel_get pool spool k H) as [K1 K2].
    destruct (xor_spec _ _ G1 K1) as (A1 & A2). split; [|reflexivity].
    apply prel_upd; [exact H|]. split; [exact A1|]. intro x. rewrite (A2 x), (G2 x), (K2 x).
    destruct (gets spool j x), (gets spool k x); cbn [xorb]; intuition congruence.
  - (* AndNot *)
    pose proof (prel_get pool spool j H) as [G1 G2]. pose proof (prel_get pool spool k H) as [K1 K2].
    destruct (andnot_spec _ _ G1 K1) as (A1 & A2). split; [|reflexivity].
    apply prel_upd; [exact H|]. split; [exact A1|]. intro x. rewrite (A2 x), (G2 x), (K2 x).
    destruct (gets spool j x), (gets spool k x); cbn [andb negb]; intuition congruence.
  - (* Encode then Decode *)
    pose proof (prel_get pool spool i H) as [G1 G2].
    destruct (decode_encode_app _ G1 [] (bm_lenN (bm_encode (getb pool i))) (N.le_refl _)) as (s' & E & I & A & C).
    rewrite app_nil_r in E. rewrite E. cbn [fst snd]. split; [|reflexivity].
    assert (Es : upd spool i (gets spool i) = spool).
    { clear. revert i. induction spool as [|s spool IH]; intro i; [reflexivity|]. destruct i as [|i]; cbn [upd]; [reflexivity|].
      f_equal. apply IH. }
    rewrite <- Es. apply prel_upd; [exact H|]. split; [exact I|]. intro x. rewrite A. apply G2.
Qed.

Theorem history_refines ops : forall pool spool, prel pool spool -> Forall op_wf ops ->
  bm_run pool ops = s_run spool ops.
Proof.
  induction ops as [|o ops IH]; intros pool spool H W; [reflexivity|].
  inversion W as [|? ? Wo Wt]; subst. cbn [bm_run s_run].
  destruct (step_refines pool spool o H Wo) as [S1 S2].
  rewrite S2, (prel_views _ _ S1). f_equal. apply IH; assumption.
Qed.

Lemma prel_init n : prel (repeat bm_create n) (repeat (fun _ => false) n).
Proof. induction n as [|n IH]; cbn [repeat]; constructor; [apply rel_create|exact IH]. Qed.

Theorem history_refines_from_empty n ops : Forall op_wf ops ->
  bm_run (repeat bm_create n) ops = s_run (repeat (fun _ => false) n) ops.
Proof. intro W. apply history_refines; [apply prel_init|exact W]. Qed.

(* ---- summary statements used by Properties_C08_bitmap.v ---- *)
Lemma answers_sound s : bm_Inv s ->
  StronglySorted N.lt (bm_to_array s) /\
  (forall x, In x (bm_to_array s) -> x < 65536) /\
  bm_cardinality s = N.of_nat (length (bm_to_array s)) /\
  (bm_is_empty s = true <-> bm_to_array s = []) /\
  (forall v, v < 65536 -> (bm_contains s v = true <-> In v (bm_to_array s))).
Proof.
  intro H. split; [exact (inv_sorted s H)|]. split; [intros x Hx; exact (inv_bound s x H Hx)|].
  split; [exact (inv_card s H)|]. split; [|intros v Hv; exact (contains_spec s v H Hv)].
  unfold bm_is_empty. pose proof (inv_card s H) as C. change (bm_to_array s) with (bm_abs s). unfold bm_lenN in C. split.
  - intro E. destruct (bm_abs s); [reflexivity|]. cbn [length] in C. lia.
  - intro E. rewrite E in C. cbn in C. lia.
Qed.

Definition op_target (o : bm_op) : option nat :=
  match o with
  | OAdd i _ | ORemove i _ | OAddRange i _ _ | ORemoveRange i _ _ | OClear i | OOptimize i | OAddMany i _
  | OClone i _ | OAnd i _ _ | OOr i _ _ | OXor i _ _ | OAndNot i _ _ | OSerDes i => Some i
  | OContains _ _ => None
  end.

Lemma nth_upd_other {A} (l : list A) i j x d : i <> j -> nth j (upd l i x) d = nth j l d.
Proof.
  revert i j. induction l as [|y l IH]; intros i j H; [reflexivity|].
  destruct i as [|i], j as [|j]; cbn [upd nth]; try reflexivity; [congruence|apply IH; congruence].
Qed.

(* a step changes no bitmap other than its target: operands are left as they were *)
Lemma operands_unchanged pool o j : op_target o <> Some j ->
  nth j (fst (bm_step pool o)) bm_create = nth j pool bm_create.
Proof.
  intro H. destruct o; cbn [bm_step fst op_target] in *; try reflexivity;
    try (apply nth_upd_other; congruence).
  destruct (fst (bm_decode _ _)); cbn [fst]; [apply nth_upd_other; congruence|reflexivity].
Qed.
