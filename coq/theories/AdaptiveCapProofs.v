(* AdaptiveCapProofs.v — C13 for varintAdaptiveDecode: on ANY byte string the
   values stored are at most maxCount (whatever count the data declares). *)
Require Import VV.Base VV.BaseProofs VV.Tagged.
Require Import VV.Delta VV.DfgLemmas VV.FOR VV.FORProofs.
Require Import VV.PFOR VV.PFORLemmas.
Require Import VV.RLELemmas VV.Dict VV.DictProofs VV.DictSafety.
Require Import VV.Bitmap.
Require Import VV.Adaptive VV.AdaptiveLemmas.
From Coq Require Import Lia ZifyBool ZifyN ZifyNat.
Local Open Scope N_scope.
Ltac Zify.zify_post_hook ::= Z.div_mod_to_equations.

(* ---------- DELTA: exactly the number of values asked for ---------- *)
Lemma delta_decode_u_loop_length n : forall p cur u vs,
  delta_decode_u_loop p n cur = Some (u, vs) -> length vs = n.
Proof.
  induction n as [|n IH]; intros p cur u vs H; cbn [delta_decode_u_loop] in H.
  - inversion H. reflexivity.
  - destruct (delta_get p) as [[used d]|]; [|discriminate].
    destruct (delta_decode_u_loop _ n _) as [[u' vs']|] eqn:E; [|discriminate].
    inversion H; subst. cbn [length]. f_equal. eapply IH. exact E.
Qed.

Lemma delta_decode_u_length p n u vs : delta_decode_u p n = Some (u, vs) -> length vs = n.
Proof.
  unfold delta_decode_u. destruct n as [|n]; intro H; [inversion H; reflexivity|].
  destruct (dfg_ext_get (List.tl p) (byte_at p 0)) as [base|]; [|discriminate].
  destruct (delta_decode_u_loop _ n base) as [[u' vs']|] eqn:E; [|discriminate].
  inversion H; subst. cbn [length]. f_equal. eapply delta_decode_u_loop_length. exact E.
Qed.

(* ---------- PFOR: as many values as the header's count ---------- *)
Lemma pfor_dec_values_length fuel : forall m n z vals z',
  pfor_dec_values fuel m n z = POk (vals, z') -> N.of_nat (length vals) = n.
Proof.
  induction fuel as [|f IH]; intros m n z vals z' H; cbn [pfor_dec_values] in H.
  - destruct (n =? 0) eqn:E; [inversion H; cbn [length]; lia|].
    destruct (pfor_get_ext z (pm_width m)); discriminate.
  - destruct (n =? 0) eqn:E; [inversion H; cbn [length]; lia|].
    destruct (pfor_get_ext z (pm_width m)) as [off| | |]; try discriminate.
    destruct (pfor_dec_values f m (n - 1) _) as [[vs z2]| | |] eqn:E2; try discriminate.
    inversion H; subst. cbn [length]. apply IH in E2. lia.
Qed.

Lemma updN_length l : forall i v, length (PFOR.updN l i v) = length l.
Proof.
  induction l as [|x t IH]; intros i v; [reflexivity|].
  cbn [PFOR.updN]. destruct (i =? 0); cbn [length]; [reflexivity|]. rewrite IH. reflexivity.
Qed.

Lemma pfor_dec_excs_length fuel : forall count k z vals vals',
  pfor_dec_excs fuel count k z vals = POk vals' -> length vals' = length vals.
Proof.
  induction fuel as [|f IH]; intros count k z vals vals' H; cbn [pfor_dec_excs] in H.
  - destruct (k =? 0); [inversion H; reflexivity|discriminate].
  - destruct (k =? 0); [inversion H; reflexivity|].
    destruct (rd_tagged z) as [[[w1 idx] z1]| | |]; try discriminate.
    destruct (rd_tagged z1) as [[[w2 v] z2]| | |]; try discriminate.
    apply IH in H. rewrite H. destruct (idx <? count); [apply updN_length|reflexivity].
Qed.

Lemma pfor_read_meta_count z m0 m0' h h' m m' :
  pfor_read_meta z m0 = POk (h, m) -> pfor_read_meta z m0' = POk (h', m') -> pm_count m' = pm_count m.
Proof.
  unfold pfor_read_meta.
  destruct (rd_tagged z) as [[[w1 mn] z1]| | |]; try discriminate.
  destruct z1 as [|wb z2]; [discriminate|].
  destruct (rd_tagged z2) as [[[w2 cnt] z3]| | |]; try discriminate.
  destruct (rd_tagged _) as [[[w3 ec] z4]| | |]; try discriminate.
  intros H1 H2. inversion H1; inversion H2; subst. reflexivity.
Qed.

Lemma pfor_decode_length z h m vals m' :
  pfor_read_meta z pfor_meta_zero = POk (h, m) -> pfor_decode z m = POk (vals, m') ->
  N.of_nat (length vals) = pm_count m.
Proof.
  intros R D. unfold pfor_decode in D. cbv zeta in D.
  set (fuel := S (length z)) in *.
  destruct (pm_width m =? 0) eqn:W.
  - destruct (pfor_read_meta z m) as [[h1 m1]| | |] eqn:R1; try discriminate.
    pose proof (pfor_read_meta_count z pfor_meta_zero m h h1 m m1 R R1) as C.
    destruct (pfor_dec_values fuel m1 (pm_count m1) _) as [[vs z2]| | |] eqn:V; try discriminate.
    destruct (rd_tagged z2) as [[[w e] z3]| | |]; try discriminate.
    destruct (pfor_dec_excs fuel _ _ z3 vs) as [vals'| | |] eqn:X; try discriminate.
    inversion D; subst. apply pfor_dec_excs_length in X. apply pfor_dec_values_length in V. lia.
  - destruct (pfor_dec_values fuel m (pm_count m) _) as [[vs z2]| | |] eqn:V; try discriminate.
    destruct (rd_tagged z2) as [[[w e] z3]| | |]; try discriminate.
    destruct (pfor_dec_excs fuel _ _ z3 vs) as [vals'| | |] eqn:X; try discriminate.
    inversion D; subst. apply pfor_dec_excs_length in X. apply pfor_dec_values_length in V. lia.
Qed.

(* ---------- TAGGED ---------- *)
Lemma adp_tagged_loop_length fuel : forall z offset count maxCount vs,
  count <= maxCount -> adp_tagged_loop fuel z offset count maxCount = POk vs ->
  count + N.of_nat (length vs) <= maxCount.
Proof.
  induction fuel as [|f IH]; intros z offset count maxCount vs Hc H; cbn [adp_tagged_loop] in H.
  - destruct ((count <? maxCount) && (offset <? mul64 maxCount 9)); [discriminate|].
    inversion H. cbn [length]. lia.
  - destruct ((count <? maxCount) && (offset <? mul64 maxCount 9)) eqn:E.
    2:{ inversion H. cbn [length]. lia. }
    destruct (rd_tagged z) as [[[w v] z']| | |]; try discriminate.
    destruct (w =? 0); [inversion H; cbn [length]; lia|].
    destruct (adp_tagged_loop f z' _ (count + 1) maxCount) as [vs'| | |] eqn:E2; try discriminate.
    inversion H; subst. cbn [length]. apply IH in E2; lia.
Qed.

Lemma takeNp_length {A} (l : list A) : forall n, N.of_nat (length (takeNp l n)) <= n.
Proof.
  induction l as [|x t IH]; intro n; cbn [takeNp]; [cbn [length]; lia|].
  destruct (n =? 0) eqn:E; cbn [length]; [lia|]. specialize (IH (n - 1)). lia.
Qed.

(* ---------- every path of varintAdaptiveDecode ---------- *)
Theorem adp_decode_cap_any src cap r stores pm :
  adp_decode src cap = ADOk r stores pm -> N.of_nat (length stores) <= cap /\ r <= cap.
Proof.
  unfold adp_decode. destruct src as [|e data]; [discriminate|].
  assert (T : match adp_tagged_loop (N.to_nat cap) data 0 0 cap with
              | POk vs => ADOk (adp_len vs) vs None
              | POob => ADOob | PUB => ADUB | PFuel => ADFuel
              end = ADOk r stores pm -> N.of_nat (length stores) <= cap /\ r <= cap).
  { destruct (adp_tagged_loop (N.to_nat cap) data 0 0 cap) as [vs| | |] eqn:E; try discriminate.
    intro H. inversion H; subst. rewrite adp_len_spec.
    apply adp_tagged_loop_length in E; lia. }
  destruct e as [|p].
  - (* DELTA *)
    destruct (delta_decode_u data (N.to_nat cap)) as [[u vs]|] eqn:E; [|discriminate].
    intro H. inversion H; subst. apply delta_decode_u_length in E. lia.
  - destruct p as [p|p|].
    + destruct p as [p|p|]; [exact T|exact T|].
      (* 3 DICT *)
      destruct (dict_decode_into_safe data (adp_max_size cap - 1) cap) as (_ & _ & S & _).
      destruct (dict_decode_into data (adp_max_size cap - 1) cap) as [al| |st al|out al];
        try discriminate; intro H; inversion H; subst; cbn [dict_dec_stores length] in S;
        rewrite ?adp_len_spec; cbn [length]; lia.
    + destruct p as [p|p|].
      * exact T.
      * destruct p as [p|p|]; [exact T|exact T|].
        (* 4 BITMAP *)
        destruct (fst (bm_decode data 1048576)) as [vb|]; [|intro H; inversion H; cbn [length]; lia].
        intro H. inversion H; subst. rewrite adp_len_spec.
        set (n := N.of_nat (length (bm_to_array vb))).
        pose proof (takeNp_length (bm_to_array vb) (if n <? cap then n else cap)) as L.
        destruct (n <? cap) eqn:E; lia.
      * (* 2 PFOR *)
        destruct (pfor_read_meta data pfor_meta_zero) as [[h m]| | |] eqn:R; try discriminate.
        destruct (cap <? pm_count m) eqn:E; [intro H; inversion H; cbn [length]; lia|].
        destruct (pfor_decode data m) as [[vs m']| | |] eqn:D; try discriminate.
        intro H. inversion H; subst. pose proof (pfor_decode_length data h m stores m' R D). lia.
    + (* 1 FOR *)
      destruct (for_decode data cap) as [[r' vs]|] eqn:E; [|discriminate].
      intro H. inversion H; subst. apply for_decode_cap in E. lia.
Qed.
