(* ExternalBig.v — the __uint128_t entry points of varintExternal.c on a
   little-endian host: varintExternalPutFixedWidthBig(p, v, encoding) and
   varintBigExternalGet(p, encoding).  Both go through
   varintExternalCopyToEncodingLittleEndian_, whose switch has the cases
   1..8 (External.ext_copy_le) and, for 16-byte sources, 9..16. *)
Require Import VV.Base VV.External.
From Coq Require Import List NArith.
Import ListNotations.
Local Open Scope N_scope.

(* cases VARINT_WIDTH_72B .. VARINT_WIDTH_120B: dst[w-1] = src[w-1] down to
   dst[8] = src[8] (fallthrough chain), then memcpy(dst, src, 8);
   case VARINT_WIDTH_128B: memcpy(dst, src, 16).  `s i` is src[i]; the result
   lists dst[0..w-1], the only bytes written. *)
Definition extbig_copy_le (s : nat -> N) (w : nat) : option (list N) :=
  let low8 := [s 0%nat; s 1%nat; s 2%nat; s 3%nat; s 4%nat; s 5%nat; s 6%nat; s 7%nat] in
  match w with
  | 15%nat => Some (low8 ++ [s 8%nat; s 9%nat; s 10%nat; s 11%nat; s 12%nat; s 13%nat; s 14%nat])
  | 14%nat => Some (low8 ++ [s 8%nat; s 9%nat; s 10%nat; s 11%nat; s 12%nat; s 13%nat])
  | 13%nat => Some (low8 ++ [s 8%nat; s 9%nat; s 10%nat; s 11%nat; s 12%nat])
  | 12%nat => Some (low8 ++ [s 8%nat; s 9%nat; s 10%nat; s 11%nat])
  | 11%nat => Some (low8 ++ [s 8%nat; s 9%nat; s 10%nat])
  | 10%nat => Some (low8 ++ [s 8%nat; s 9%nat])
  | 9%nat => Some (low8 ++ [s 8%nat])
  | 16%nat => Some (low8 ++ [s 8%nat; s 9%nat; s 10%nat; s 11%nat; s 12%nat; s 13%nat; s 14%nat; s 15%nat])
  | _ => ext_copy_le s w
  end.

(* varintExternalPutFixedWidthBig: src = the 16 bytes of the __uint128_t v *)
Definition extbig_put_fixed (v : N) (w : nat) : option (list N) :=
  extbig_copy_le (src_byte v) w.

(* varintBigExternalGet: __uint128_t result = 0; copy `encoding` bytes of p
   over its low bytes *)
Definition extbig_get (z : list N) (w : nat) : option N :=
  match extbig_copy_le (byte_at z) w with
  | Some l => Some (of_le l)
  | None => None
  end.

(* EXTRACT: extbig_put_fixed extbig_get *)
