(* Properties_C12_tagged.v — C12 for varintTaggedAddNoGrow / AddGrow. *)
Require Import VV.Base VV.Tagged VV.TaggedFixed.
Local Open Scope N_scope.

(* signed 64-bit overflow: width 0, bytes untouched *)
Theorem C12_tagged_add_overflow : forall p add force,
  in_s64 (to_s64 (snd (tagged_get64 p)) + add) = false ->
  tagged_add p add force = (0, p).
Proof. exact tagged_add_overflow. Qed.
Print Assumptions C12_tagged_add_overflow.

(* no-grow: a sum needing more bytes leaves the buffer unchanged and returns
   the width required *)
Theorem C12_tagged_add_nogrow : forall p add,
  in_s64 (to_s64 (snd (tagged_get64 p)) + add) = true ->
  fst (tagged_get64 p) < tagged_len (of_s64 (to_s64 (snd (tagged_get64 p)) + add)) ->
  tagged_add p add false = (tagged_len (of_s64 (to_s64 (snd (tagged_get64 p)) + add)), p).
Proof. exact tagged_add_nogrow_too_big. Qed.
Print Assumptions C12_tagged_add_nogrow.

(* otherwise the exact sum is stored: it reads back, the returned width is
   its width (1..9), and every byte beyond that width is unchanged *)
Theorem C12_tagged_add_stores : forall p add force,
  in_s64 (to_s64 (snd (tagged_get64 p)) + add) = true ->
  (force = true \/
   tagged_len (of_s64 (to_s64 (snd (tagged_get64 p)) + add)) <= fst (tagged_get64 p)) ->
  let nv := of_s64 (to_s64 (snd (tagged_get64 p)) + add) in
  let r := tagged_add p add force in
  fst r = tagged_len nv /\ 1 <= fst r <= 9 /\
  tagged_get (snd r) 9 = (tagged_len nv, nv) /\
  skipn (N.to_nat (tagged_len nv)) (snd r) = skipn (N.to_nat (tagged_len nv)) p.
Proof. exact tagged_add_stores. Qed.
Print Assumptions C12_tagged_add_stores.

Example C12_tagged_example :
  tagged_add [240; 9; 9] 1 false = (2, [240; 9; 9]) /\
  tagged_add [240; 9; 9] 1 true = (2, [241; 1; 9]) /\
  tagged_add [255; 127; 255; 255; 255; 255; 255; 255; 255] 1 true
    = (0, [255; 127; 255; 255; 255; 255; 255; 255; 255]).
Proof. vm_compute. repeat split; reflexivity. Qed.
