(* LeafSrcBitmap.v — the regenerated renderings (coq/gen/Src_leaf_bitmap.v, produced
   by gen/c2coq.py from the current src/varintBitmap.c) of bitmapContains_, bitmapSet_
   and bitmapClear_ compute what the hand model (Bitmap.v: bm_bits_contains,
   bm_bits_set, bm_bits_clear) computes, for every uint16_t value and every byte
   object that contains byte value/8; and the bit-level facts of property C08
   (contains after set / clear, other bits unchanged) stated about them.

   The C object `uint8_t *bits` is a byte list here and a finite map in the hand
   model; [bm_rep m M] relates the two (same byte at every index).  Each function
   touches ONE byte: after the bounds check and the bit index (8 classes of
   value mod 8, the model's) are decided, what remains is an equation in that byte
   alone, which is swept over its 256 values by computation (sweep_byte) — no
   script depends on the shape of the generated term. *)
Require Import VV.Base VV.BaseProofs VV.Bitmap VV.BitmapLemmas VV.BitmapProofsBits VV.CSem VV.CSemProofs VV.LeafSrcLemmas.
Require Import VVgen.Src_leaf_bitmap.
From Coq Require Import Lia ZifyBool ZifyN ZifyNat Arith FMapPositive.
Local Open Scope Z_scope.
Ltac Zify.zify_post_hook ::= Z.div_mod_to_equations.

(* ---------- sweeping one byte ---------- *)
Lemma nbyte_sweep_Z (f g : N -> Z) :
  forallb (fun n => f n =? g n) bytes256 = true -> forall b, (b < 256)%N -> f b = g b.
Proof. intros H b Hb. apply Z.eqb_eq. exact (byte_sweep (fun n => f n =? g n) H b Hb). Qed.
Lemma nbyte_sweep_N (f g : N -> N) :
  forallb (fun n => (f n =? g n)%N) bytes256 = true -> forall b, (b < 256)%N -> f b = g b.
Proof. intros H b Hb. apply N.eqb_eq. exact (byte_sweep (fun n => (f n =? g n)%N) H b Hb). Qed.

(* an equation whose only variable is the byte b: all 256 values by computation *)
Ltac sweep_byte b Hb :=
  match goal with
  | |- @eq Z ?l ?r =>
      let fl := eval pattern b in l in let fr := eval pattern b in r in
      match fl with ?F b => match fr with ?G b =>
        apply (nbyte_sweep_Z F G); [vm_compute; reflexivity | exact Hb] end end
  | |- @eq N ?l ?r =>
      let fl := eval pattern b in l in let fr := eval pattern b in r in
      match fl with ?F b => match fr with ?G b =>
        apply (nbyte_sweep_N F G); [vm_compute; reflexivity | exact Hb] end end
  end.

(* decide the [if]s that computation or lia can decide, wherever they stand; never split *)
Ltac c_step_nd :=
  c_simp;
  match goal with
  | |- context [if ?b then _ else _] =>
      lazymatch b with context [if _ then _ else _] => fail | _ => idtac end;
      first
        [ tryif is_open b then fail else
            (let v := eval vm_compute in b in
             lazymatch v with true => idtac | false => idtac end;
             change b with v)
        | let E := fresh "E" in assert (E : b = true) by lia; rewrite E; clear E
        | let E := fresh "E" in assert (E : b = false) by lia; rewrite E; clear E ]
  end.

(* a bit index that the context pins to one of 0..7 *)
Ltac pow_norm8 :=
  repeat match goal with
  | |- context [2 ^ ?e] =>
      is_open e;
      first [ replace e with 0 by lia | replace e with 1 by lia | replace e with 2 by lia
            | replace e with 3 by lia | replace e with 4 by lia | replace e with 5 by lia
            | replace e with 6 by lia | replace e with 7 by lia ]
  end.
Ltac idx_to m t :=
  repeat match goal with
  | |- context [byte_at m (Z.to_nat ?e)] =>
      lazymatch e with Z.of_nat t => fail | _ => idtac end;
      replace (Z.to_nat e) with t by lia
  | |- context [upd m (Z.to_nat ?e)] =>
      replace (Z.to_nat e) with t by lia
  end.

Lemma src_bitmapContains__byte : forall m v, 0 <= v < 65536 -> bytes_ok m ->
  (Z.to_nat (v / 8) < length m)%nat ->
  src_bitmapContains_ m v =
  COk (b2z (negb (N.land (byte_at m (Z.to_nat (v / 8))) (2 ^ Z.to_N (v mod 8)) =? 0)%N)).
Proof.
  intros m v Hv Hm Hl.
  set (k := Z.to_nat (v / 8)) in *.
  pose proof (bytes_ok_nth m k Hm) as Hb. remember (byte_at m k) as b eqn:Eb.
  assert (J : v mod 8 = 0 \/ v mod 8 = 1 \/ v mod 8 = 2 \/ v mod 8 = 3 \/
              v mod 8 = 4 \/ v mod 8 = 5 \/ v mod 8 = 6 \/ v mod 8 = 7) by lia.
  repeat (destruct J as [J|J]).
  all: rewrite J; cbn [Z.to_N]; npow_eval.
  all: unfold src_bitmapContains_; c_unfold.
  all: repeat (c_simp; idx_to m k; rewrite <- ?Eb; pow_norm8; c_step_nd).
  all: c_simp; idx_to m k; rewrite <- ?Eb; pow_norm8.
  all: f_equal; sweep_byte b Hb.
Qed.

Ltac bit_cases v :=
  let J := fresh "J" in
  assert (J : v mod 8 = 0 \/ v mod 8 = 1 \/ v mod 8 = 2 \/ v mod 8 = 3 \/
              v mod 8 = 4 \/ v mod 8 = 5 \/ v mod 8 = 6 \/ v mod 8 = 7) by lia;
  repeat (destruct J as [J|J]); rewrite J; cbn [Z.to_N]; npow_eval.

Lemma src_bitmapSet__byte : forall m v, 0 <= v < 65536 -> bytes_ok m ->
  (Z.to_nat (v / 8) < length m)%nat ->
  let b := byte_at m (Z.to_nat (v / 8)) in let mask := (2 ^ Z.to_N (v mod 8))%N in
  src_bitmapSet_ m v =
  COk (b2z (negb (negb (N.land b mask =? 0)%N)), upd m (Z.to_nat (v / 8)) (N.lor b mask)).
Proof.
  intros m v Hv Hm Hl. cbv zeta.
  set (k := Z.to_nat (v / 8)) in *.
  pose proof (bytes_ok_nth m k Hm) as Hb. remember (byte_at m k) as b eqn:Eb.
  bit_cases v.
  all: unfold src_bitmapSet_; c_unfold.
  all: repeat (c_simp; idx_to m k; rewrite <- ?Eb; pow_norm8; c_step_nd).
  all: c_simp; idx_to m k; rewrite <- ?Eb; pow_norm8.
  all: apply cok_pair_eq; [|apply upd_eq3; [reflexivity|reflexivity|]]; sweep_byte b Hb.
Qed.

Lemma src_bitmapClear__byte : forall m v, 0 <= v < 65536 -> bytes_ok m ->
  (Z.to_nat (v / 8) < length m)%nat ->
  let b := byte_at m (Z.to_nat (v / 8)) in let mask := (2 ^ Z.to_N (v mod 8))%N in
  src_bitmapClear_ m v =
  COk (b2z (negb (N.land b mask =? 0)%N), upd m (Z.to_nat (v / 8)) (N.ldiff b mask)).
Proof.
  intros m v Hv Hm Hl. cbv zeta.
  set (k := Z.to_nat (v / 8)) in *.
  pose proof (bytes_ok_nth m k Hm) as Hb. remember (byte_at m k) as b eqn:Eb.
  bit_cases v.
  all: unfold src_bitmapClear_; c_unfold.
  all: repeat (c_simp; idx_to m k; rewrite <- ?Eb; pow_norm8; c_step_nd).
  all: c_simp; idx_to m k; rewrite <- ?Eb; pow_norm8.
  all: apply cok_pair_eq; [|apply upd_eq3; [reflexivity|reflexivity|]]; sweep_byte b Hb.
Qed.


(* ---------- the byte list and the hand model's memory ---------- *)

Definition bm_rep (m : list N) (M : bm_mem8) : Prop := forall i, bm_mget M i = byte_at m (N.to_nat i).

Lemma bm_rep_of_bytes m : bm_rep m (bm_mem_of_bytes m).
Proof. intro i. apply mget_mem_of_bytes. Qed.

Lemma byte_at_upd m : forall k x i, (k < length m)%nat ->
  byte_at (upd m k x) i = if Nat.eqb i k then x else byte_at m i.
Proof.
  unfold byte_at. induction m as [|h t IH]; intros k x i H; cbn [length] in H; [lia|].
  destruct k as [|k], i as [|i]; cbn [upd nth Nat.eqb]; try reflexivity.
  apply IH. lia.
Qed.

Lemma bm_rep_upd m M k x : bm_rep m M -> (N.to_nat k < length m)%nat ->
  bm_rep (upd m (N.to_nat k) x) (bm_mset M k x).
Proof.
  intros R H i. rewrite mget_mset, byte_at_upd by exact H. rewrite R.
  destruct (N.eqb_spec i k) as [E|E].
  - subst i. rewrite Nat.eqb_refl. reflexivity.
  - destruct (Nat.eqb_spec (N.to_nat i) (N.to_nat k)) as [F|F]; [exfalso; lia|reflexivity].
Qed.

Lemma bytes_ok_upd m k x : bytes_ok m -> (x < 256)%N -> bytes_ok (upd m k x).
Proof.
  unfold bytes_ok. revert k. induction m as [|h t IH]; intros k Hm Hx; [constructor|].
  inversion Hm; subst. destruct k as [|k]; cbn [upd]; constructor; auto.
Qed.

Lemma mod8_to_N v : 0 <= v -> (Z.to_N v mod 8 = Z.to_N (v mod 8))%N.
Proof. intro H. lia. Qed.
Lemma div8_to_nat v : 0 <= v -> N.to_nat (Z.to_N v / 8) = Z.to_nat (v / 8).
Proof. intro H. lia. Qed.

(* ---------- the regenerated functions compute the hand model ---------- *)

Theorem src_bitmapContains__is_model : forall m M v, 0 <= v < 65536 -> bytes_ok m -> bm_rep m M ->
  (Z.to_nat (v / 8) < length m)%nat ->
  src_bitmapContains_ m v = COk (b2z (bm_bits_contains M (Z.to_N v))).
Proof.
  intros m M v Hv Hm R Hl. rewrite src_bitmapContains__byte by assumption.
  unfold bm_bits_contains. cbv zeta. rewrite R, mod8_to_N, div8_to_nat by lia. reflexivity.
Qed.

Theorem src_bitmapSet__is_model : forall m M v, 0 <= v < 65536 -> bytes_ok m -> bm_rep m M ->
  (Z.to_nat (v / 8) < length m)%nat ->
  exists m', src_bitmapSet_ m v = COk (b2z (snd (bm_bits_set M (Z.to_N v))), m') /\
    bm_rep m' (fst (bm_bits_set M (Z.to_N v))) /\ length m' = length m /\ bytes_ok m'.
Proof.
  intros m M v Hv Hm R Hl. rewrite src_bitmapSet__byte by assumption. cbv zeta.
  unfold bm_bits_set. cbv zeta. cbn [fst snd]. rewrite R, mod8_to_N, div8_to_nat by lia.
  eexists. split; [reflexivity|]. split; [|split].
  - rewrite <- (div8_to_nat v) by lia. apply bm_rep_upd; [exact R|]. rewrite div8_to_nat by lia. exact Hl.
  - apply upd_length.
  - apply bytes_ok_upd; [exact Hm|]. apply lor_pow2_byte; [apply bytes_ok_nth; exact Hm|lia].
Qed.

Theorem src_bitmapClear__is_model : forall m M v, 0 <= v < 65536 -> bytes_ok m -> bm_rep m M ->
  (Z.to_nat (v / 8) < length m)%nat ->
  exists m', src_bitmapClear_ m v = COk (b2z (snd (bm_bits_clear M (Z.to_N v))), m') /\
    bm_rep m' (fst (bm_bits_clear M (Z.to_N v))) /\ length m' = length m /\ bytes_ok m'.
Proof.
  intros m M v Hv Hm R Hl. rewrite src_bitmapClear__byte by assumption. cbv zeta.
  unfold bm_bits_clear. cbv zeta. cbn [fst snd]. rewrite R, mod8_to_N, div8_to_nat by lia.
  eexists. split; [reflexivity|]. split; [|split].
  - rewrite <- (div8_to_nat v) by lia. apply bm_rep_upd; [exact R|]. rewrite div8_to_nat by lia. exact Hl.
  - apply upd_length.
  - apply bytes_ok_upd; [exact Hm|]. apply ldiff_pow2_byte. apply bytes_ok_nth. exact Hm.
Qed.

(* ---------- property C08, bit level, about the regenerated functions ---------- *)

(* after bitmapSet_(bits, v): v is contained, every other value answers as before, the
   return value says whether the bit changed; the object keeps its length *)
Theorem src_bitmap_contains_after_set : forall m v x, 0 <= v < 65536 -> 0 <= x < 65536 -> bytes_ok m ->
  (Z.to_nat (v / 8) < length m)%nat -> (Z.to_nat (x / 8) < length m)%nat ->
  exists r m', src_bitmapSet_ m v = COk (r, m') /\ length m' = length m /\ bytes_ok m' /\
    src_bitmapContains_ m' v = COk 1 /\
    (x <> v -> src_bitmapContains_ m' x = src_bitmapContains_ m x) /\
    src_bitmapContains_ m v = COk (1 - r).
Proof.
  intros m v x Hv Hx Hm Lv Lx.
  pose proof (bm_rep_of_bytes m) as R. set (M := bm_mem_of_bytes m) in *.
  destruct (src_bitmapSet__is_model m M v Hv Hm R Lv) as (m' & S & R' & L' & B').
  exists (b2z (snd (bm_bits_set M (Z.to_N v)))), m'.
  split; [exact S|]. split; [exact L'|]. split; [exact B'|].
  rewrite (src_bitmapContains__is_model m' _ v Hv B' R') by (rewrite L'; exact Lv).
  rewrite (src_bitmapContains__is_model m M v Hv Hm R Lv).
  rewrite !bits_contains_spec, bits_set_bit, bits_set_flag, N.eqb_refl.
  split; [reflexivity|]. split.
  - intro Hne. rewrite (src_bitmapContains__is_model m' _ x Hx B' R') by (rewrite L'; exact Lx).
    rewrite (src_bitmapContains__is_model m M x Hx Hm R Lx).
    rewrite !bits_contains_spec, bits_set_bit.
    destruct (N.eqb_spec (Z.to_N x) (Z.to_N v)) as [E|E]; [exfalso; lia|reflexivity].
  - destruct (bit_of M (Z.to_N v)); reflexivity.
Qed.

(* after bitmapClear_(bits, v): v is not contained, every other value answers as before, the
   return value says whether the bit was set *)
Theorem src_bitmap_contains_after_clear : forall m v x, 0 <= v < 65536 -> 0 <= x < 65536 -> bytes_ok m ->
  (Z.to_nat (v / 8) < length m)%nat -> (Z.to_nat (x / 8) < length m)%nat ->
  exists r m', src_bitmapClear_ m v = COk (r, m') /\ length m' = length m /\ bytes_ok m' /\
    src_bitmapContains_ m' v = COk 0 /\
    (x <> v -> src_bitmapContains_ m' x = src_bitmapContains_ m x) /\
    src_bitmapContains_ m v = COk r.
Proof.
  intros m v x Hv Hx Hm Lv Lx.
  pose proof (bm_rep_of_bytes m) as R. set (M := bm_mem_of_bytes m) in *.
  destruct (src_bitmapClear__is_model m M v Hv Hm R Lv) as (m' & S & R' & L' & B').
  exists (b2z (snd (bm_bits_clear M (Z.to_N v)))), m'.
  split; [exact S|]. split; [exact L'|]. split; [exact B'|].
  rewrite (src_bitmapContains__is_model m' _ v Hv B' R') by (rewrite L'; exact Lv).
  rewrite (src_bitmapContains__is_model m M v Hv Hm R Lv).
  rewrite !bits_contains_spec, bits_clear_bit, bits_clear_flag, N.eqb_refl.
  split; [rewrite andb_false_r; reflexivity|]. split.
  - intro Hne. rewrite (src_bitmapContains__is_model m' _ x Hx B' R') by (rewrite L'; exact Lx).
    rewrite (src_bitmapContains__is_model m M x Hx Hm R Lx).
    rewrite !bits_contains_spec, bits_clear_bit.
    destruct (N.eqb_spec (Z.to_N x) (Z.to_N v)) as [E|E]; [exfalso; lia|].
    cbn [negb]. rewrite andb_true_r. reflexivity.
  - reflexivity.
Qed.
