(* PFORSpec.v — the PFOR wire format stated independently of the encoder's
   loop structure (transcribed from the format comment of varintPFOR.c):
     [min][width][count][slot_0]...[slot_{n-1}][exception_count]
     [exception_index_0][exception_value_0]...
   A slot is `width` little-endian bytes: the offset from min, or the all-ones
   marker for an outlier; outliers are listed as (index, value) pairs in
   increasing index order. *)
Require Import VV.Base VV.Tagged VV.PFOR.
Local Open Scope N_scope.

Definition pfor_slot (m : pfor_meta) (v : N) : list N :=
  if pfor_is_exc (pm_min m) (pm_tv m) (pm_marker m) v
  then le_bytes (N.to_nat (pm_width m)) (pm_marker m)
  else le_bytes (N.to_nat (pm_width m)) (sub64 v (pm_min m)).

(* (index, value) of every outlier, indices counted from i *)
Fixpoint pfor_excs (m : pfor_meta) (i : N) (xs : list N) : list (N * N) :=
  match xs with
  | [] => []
  | v :: t =>
      if pfor_is_exc (pm_min m) (pm_tv m) (pm_marker m) v
      then (i, v) :: pfor_excs m (i + 1) t
      else pfor_excs m (i + 1) t
  end.

Definition pfor_layout (m : pfor_meta) (xs : list N) : list N :=
  tagged_put64 (pm_min m) ++ [pm_width m] ++ tagged_put64 (N.of_nat (length xs))
  ++ flat_map (pfor_slot m) xs
  ++ tagged_put64 (N.of_nat (length (pfor_excs m 0 xs)))
  ++ pfor_put_excs (pfor_excs m 0 xs).

(* what a decoder sees in the slots before the exception list is applied *)
Definition pfor_masked (m : pfor_meta) (v : N) : N :=
  if pfor_is_exc (pm_min m) (pm_tv m) (pm_marker m) v then U64MAX else v.
