(* RleSrc2Lemmas.v — building blocks for the capacity theorems about the
   regenerated varintRLEDecode / varintRLEDecodeWithHeader (coq/gen/Src_rle.v):
   the run reader is total on 18 readable bytes, and a loop that stores one value
   per iteration below the length of the output list keeps that length.
   Nothing here unfolds a whole generated function. *)
Require Import VV.Base VV.BaseProofs VV.Tagged VV.TaggedProofs VV.TaggedFixed VV.CSem VV.CSemProofs
  VV.TaggedSrcGet VV.TaggedSrcAdd VV.RLE VV.RleSrcProofs.
Require Import VVgen.Src_tagged VVgen.Src_rle.
From Coq Require Import Lia ZifyBool ZifyN ZifyNat.
Local Open Scope Z_scope.
Ltac Zify.zify_post_hook ::= Z.div_mod_to_equations.

(* ---------- the run reader on ANY 18 readable bytes ---------- *)

Lemma tagged_getlen_range z : bytes_ok z -> (1 <= tagged_getlen z <= 9)%N.
Proof.
  intro Hz. pose proof (bytes_ok_nth z 0 Hz) as Hb.
  unfold tagged_getlen; cbv zeta; kill_ifs; lia.
Qed.

(* what varintRLEDecodeRun returns on bytes z, whatever they are, as long as 18
   of them can be read: it consumes 2..18 bytes and yields two 64-bit values *)
Lemma src_varintRLEDecodeRun_total : forall z rl v, bytes_ok z -> 18 <= Z.of_nat (length z) ->
  exists c r x, src_varintRLEDecodeRun z rl v = COk (c, Some r, Some x) /\
    2 <= c <= 18 /\ 0 <= r < 18446744073709551616 /\ 0 <= x < 18446744073709551616 /\
    c = Z.of_N (fst (fst (rle_decode_run z))) /\
    r = Z.of_N (snd (fst (rle_decode_run z))) /\ x = Z.of_N (snd (rle_decode_run z)).
Proof.
  intros z rl v Hz Hl.
  pose proof (tagged_getlen_range z Hz) as G1.
  set (z2 := skipn (N.to_nat (tagged_getlen z)) z).
  assert (Hz2 : bytes_ok z2) by (apply bytes_ok_skipn; exact Hz).
  pose proof (tagged_getlen_range z2 Hz2) as G2.
  assert (L2 : Z.of_nat (length z2) = Z.of_nat (length z) - Z.of_N (tagged_getlen z)) by (unfold z2; rewrite skipn_length; lia).
  rewrite (src_varintRLEDecodeRun_is_model z rl v Hz) by (fold z2; lia).
  destruct (get64_complete z Hz ltac:(lia)) as (_ & F1 & _).
  destruct (get64_complete z2 Hz2 ltac:(lia)) as (_ & F2 & _).
  pose proof (tagged_get_val_lt z 9 Hz) as V1.
  pose proof (tagged_get_val_lt z2 9 Hz2) as V2.
  eexists; eexists; eexists. split; [reflexivity|].
  unfold rle_decode_run. cbv zeta. cbn [fst snd]. rewrite F1. fold z2. rewrite F2.
  unfold tagged_get64. repeat split; lia.
Qed.

(* ---------- zupd ---------- *)

Lemma zupd_length m k v : length (zupd m k v) = length m.
Proof. revert k. induction m as [|h t IH]; intros [|k]; cbn [zupd length]; try rewrite IH; reflexivity. Qed.

(* ---------- a loop that stores ---------- *)

(* [step] is one iteration of `for (i = i0; i < n; i++) values[b + i] = v` as
   the translator renders it (state: i, n, b, the cell of v, the output list):
   characterised by what it does below and at the bound.  Whatever the list
   was, as long as b + n is within it, the loop ends at i = n with a list of the
   same length, once the fuel exceeds n. *)
Lemma store_loop_len {R : Type} (step : Z * Z * Z * option Z * list Z -> cres (lstep (Z * Z * Z * option Z * list Z) R))
    (n b : Z) (v : option Z) (len : nat) :
  (forall i m, 0 <= i < n -> length m = len ->
     exists m', step (i, n, b, v, m) = COk (LNext (i + 1, n, b, v, m')) /\ length m' = len) ->
  (forall i m, n <= i -> step (i, n, b, v, m) = COk (LBreak (i, n, b, v, m))) ->
  forall fuel m, 0 <= n -> (Z.to_nat n < fuel)%nat -> length m = len ->
  exists m', c_while fuel step (0, n, b, v, m) = COk (LBreak (n, n, b, v, m')) /\ length m' = len.
Proof.
  intros H1 H2 fuel m Hn Hf Hm.
  pose (Inv := fun s : Z * Z * Z * option Z * list Z =>
     let '(i, n', b', v', m1) := s in 0 <= i <= n /\ n' = n /\ b' = b /\ v' = v /\ length m1 = len).
  pose (Q := fun r : lstep (Z * Z * Z * option Z * list Z) R =>
     exists m', r = LBreak (n, n, b, v, m') /\ length m' = len).
  pose (ms := fun s : Z * Z * Z * option Z * list Z => let '(i, _, _, _, _) := s in Z.to_nat (n - i)).
  assert (Hstep : forall s, Inv s -> exists r, step s = COk r /\
            match r with LNext s' => Inv s' /\ (ms s' < ms s)%nat | _ => Q r end).
  { intros [[[[i n'] b'] v'] m1] (Hi & -> & -> & -> & Hl).
    destruct (Z.eq_dec i n) as [->|Ne].
    - eexists. split; [apply H2; lia|]. exists m1. split; [reflexivity|exact Hl].
    - destruct (H1 i m1 ltac:(lia) Hl) as (m' & E & L'). eexists. split; [exact E|].
      split; [unfold Inv; repeat split; try lia; exact L'|unfold ms; lia]. }
  destruct (c_while_inv Inv Q ms step Hstep fuel (0, n, b, v, m)) as [_ B].
  { unfold Inv. repeat split; try lia; exact Hm. }
  destruct (B ltac:(unfold ms; lia)) as (r & E & (m' & -> & L')).
  exists m'. split; assumption.
Qed.
