(* Properties_C13_elias.v — property C13 (decoders never write beyond the
   caller's output capacity), Elias gamma / delta part.  The model's result is
   the list of values stored, in order, at values[0], values[1], ...; the
   returned count is its length. *)
Require Import VV.Base VV.EliasBits VV.Elias VV.EliasSpec VV.EliasProofs.
Local Open Scope N_scope.

(* whatever the input bytes and declared bit count: at most maxCount stores
   (indices 0 .. maxCount-1), each of a non-zero value *)
Theorem C13_gamma_capacity : forall z bits cap,
  (length (elias_gamma_decode_array z bits cap) <= cap)%nat /\
  Forall (fun v => v <> 0) (elias_gamma_decode_array z bits cap).
Proof. exact gamma_decode_capacity. Qed.
Print Assumptions C13_gamma_capacity.

Theorem C13_delta_capacity : forall z bits cap,
  (length (elias_delta_decode_array z bits cap) <= cap)%nat /\
  Forall (fun v => v <> 0) (elias_delta_decode_array z bits cap).
Proof. exact delta_decode_capacity. Qed.
Print Assumptions C13_delta_capacity.

(* a valid encoding decoded with any capacity yields exactly the first
   `cap` values (the whole list when cap >= count) *)
Theorem C13_gamma_prefix : forall xs cap,
  Forall (fun x => 1 <= x < 18446744073709551616) xs ->
  N.of_nat (length xs) < 144115188075855872 ->
  let e := elias_gamma_encode_array xs in
  elias_gamma_decode_array (ee_bytes e) (ee_totalBits e) cap = firstn cap xs.
Proof. exact gamma_decode_prefix. Qed.
Print Assumptions C13_gamma_prefix.

Theorem C13_delta_prefix : forall xs cap,
  Forall (fun x => 1 <= x < 18446744073709551616) xs ->
  N.of_nat (length xs) < 144115188075855872 ->
  let e := elias_delta_encode_array xs in
  elias_delta_decode_array (ee_bytes e) (ee_totalBits e) cap = firstn cap xs.
Proof. exact delta_decode_prefix. Qed.
Print Assumptions C13_delta_prefix.

Example C13_elias_example :
  let e := elias_delta_encode_array [7; 1; 300; 2] in
  elias_delta_decode_array (ee_bytes e) (ee_totalBits e) 0 = [] /\
  elias_delta_decode_array (ee_bytes e) (ee_totalBits e) 3 = [7; 1; 300] /\
  elias_delta_decode_array (ee_bytes e) (ee_totalBits e) 9 = [7; 1; 300; 2].
Proof. vm_compute. repeat split; reflexivity. Qed.
