(* EliasBits.v — Gallina model of the MSB-first bit writer / bit reader of
   /repo/src/varintElias.{c,h} : the varintBitWriter and varintBitReader functions.
   Models only; proofs are in EliasBitsProofs.v.

   Memory modelling (stated once, used by every proof):
   * The writer's buffer is `memset` to 0 over `capacity` bytes by
     varintBitWriterInit and bits are only ever OR-ed in at increasing bit
     positions.  The model keeps the byte under the cursor (`bw_cur`
     = buffer[bitPos/8]) and the completed bytes before it (`bw_done`,
     reversed); every byte after the cursor is still the 0 of the memset.
     `bw_buffer` is the first ceil(bitPos/8) bytes of the C buffer; the touched
     extent is the whole `capacity` (the memset).
   * The C writer has no bound check in release builds (`assert(byteIdx <
     w->capacity)` only): a bit placed at byteIdx >= capacity is recorded in
     `bw_ovf` (it is an out-of-bounds store / failed assertion in C).
   * The reader keeps the suffix of the input that starts at buffer[bitPos/8]
     (`br_cur`); buffer[byteIdx] is its head, with the C-like default 0 beyond
     the end of the list (reads nothing beyond n = non-interference, GUIDE §2).
   * size_t counters bitPos/totalBits are bounded by 8*buffer size and are not
     wrapped; the two places where the C computes with caller-supplied sizes
     (HasMore's `bitPos + nBits`, MaxBytes' `count * 127 + 7`) wrap. *)
Require Import VV.Base.
Local Open Scope N_scope.

(* x / 8 and x % 8 on size_t (written as shift/mask so that the extracted
   model is fast; EliasBitsProofs.div8_spec / mod8_spec give x / 8, x mod 8) *)
Definition div8 (x : N) : N := N.shiftr x 3.
Definition mod8 (x : N) : N := N.land x 7.

(* ---- varintBitWriter ---- *)
Record bitw := mk_bitw {
  bw_done : list N;   (* buffer[0 .. bitPos/8), reversed *)
  bw_cur : N;         (* buffer[bitPos/8] *)
  bw_pos : N;         (* bitPos *)
  bw_cap : N;         (* capacity (bytes) *)
  bw_ovf : bool       (* a bit was placed at byteIdx >= capacity *)
}.

(* varintBitWriterInit (the memset makes every byte 0) *)
Definition bw_init (capacity : N) : bitw := mk_bitw [] 0 0 capacity false.

(* one iteration of the loop of varintBitWriterWrite, for the bit b *)
Definition bw_put (w : bitw) (b : bool) : bitw :=
  let byteIdx := div8 (bw_pos w) in
  let bitIdx := 7 - mod8 (bw_pos w) in
  let ovf := bw_ovf w || negb (byteIdx <? bw_cap w) in
  let cur := if b then N.lor (bw_cur w) (2 ^ bitIdx) else bw_cur w in
  let pos := bw_pos w + 1 in
  if mod8 pos =? 0
  then mk_bitw (cur :: bw_done w) 0 pos (bw_cap w) ovf
  else mk_bitw (bw_done w) cur pos (bw_cap w) ovf.

(* varintBitWriterWrite(w, value, nBits), nBits <= 64 (asserted by the C; a
   larger nBits would shift by >= 64).  Iteration i uses bit nBits-1-i. *)
Fixpoint bw_write (w : bitw) (value : N) (nBits : nat) : bitw :=
  match nBits with
  | O => w
  | S k => bw_write (bw_put w (N.testbit value (N.of_nat k))) value k
  end.

(* varintBitWriterBytes *)
Definition bw_bytes (w : bitw) : N := div8 (bw_pos w + 7).

(* buffer[0 .. varintBitWriterBytes) *)
Definition bw_buffer (w : bitw) : list N :=
  rev_append (if mod8 (bw_pos w) =? 0 then bw_done w else bw_cur w :: bw_done w) [].

(* ---- varintBitReader ---- *)
Record bitr := mk_bitr {
  br_cur : list N;    (* buffer + bitPos/8 *)
  br_pos : N;         (* bitPos *)
  br_total : N        (* totalBits *)
}.

(* varintBitReaderInit *)
Definition br_init (buffer : list N) (totalBits : N) : bitr := mk_bitr buffer 0 totalBits.

(* one iteration of the loop of varintBitReaderRead *)
Definition br_get (r : bitr) : bool * bitr :=
  let bitIdx := 7 - mod8 (br_pos r) in
  let b := N.testbit (hd 0 (br_cur r)) bitIdx in
  let pos := br_pos r + 1 in
  (b, mk_bitr (if mod8 pos =? 0 then tl (br_cur r) else br_cur r) pos (br_total r)).

(* varintBitReaderRead(r, nBits), nBits <= 64 *)
Fixpoint br_read_loop (r : bitr) (nBits : nat) (result : N) : N * bitr :=
  match nBits with
  | O => (result, r)
  | S k =>
      let (b, r') := br_get r in
      br_read_loop r' k (if b then N.lor result (shl64 1 (N.of_nat k)) else result)
  end.
Definition br_read (r : bitr) (nBits : nat) : N * bitr := br_read_loop r nBits 0.

(* varintBitReaderHasMore: r->bitPos + nBits <= r->totalBits in size_t *)
Definition br_has_more (r : bitr) (nBits : N) : bool :=
  add64 (br_pos r) nBits <=? br_total r.

(* EXTRACT: bw_init bw_put bw_write bw_bytes bw_buffer br_init br_get br_read br_has_more
   bw_pos bw_ovf br_pos *)
