(* BP128ProofsD32.v — varintBP128DeltaEncode32 / DeltaDecode32: round trip (for
   every input; deltas wrap modulo 2^32 on both sides), capacity (whole
   blocks), size bound, metadata. *)
Require Import VV.Base VV.BaseProofs VV.Tagged VV.TaggedProofs VV.TaggedSpecProofs
               VV.BP128 VV.BP128Bits VV.BP128Lemmas VV.BP128Proofs32.
From Coq Require Import Lia ZifyBool ZifyN ZifyNat.
Local Open Scope N_scope.
Ltac Zify.zify_post_hook ::= Z.div_mod_to_equations.

Lemma last_nth {A} (l : list A) d d' : l <> [] -> last l d = nth (length l - 1) l d'.
Proof.
  intro H. rewrite <- (firstn_all l) at 1.
  rewrite last_firstn_nth by (destruct l; [congruence|cbn [length]; lia]).
  apply nth_indep. destruct l; [congruence|cbn [length]; lia].
Qed.

Lemma last_app_cons {A} (a : list A) x t d d' : last (a ++ x :: t) d = last (x :: t) d'.
Proof.
  revert d. induction a as [|y a IH]; intro d.
  - cbn [app]. rewrite !last_cons'. reflexivity.
  - cbn [app]. rewrite last_cons'. apply IH.
Qed.

(* ---------- the encoder's bytes ---------- *)

Lemma denc32_full_blocks k : forall prev vs g, (128 * k <= length vs)%nat ->
  blocks (k + g) (deltas32 prev vs) =
  denc32_full k prev vs (blocks g (deltas32 (denc32_prev k prev vs) (skipn (128 * k) vs))).
Proof.
  induction k as [|k IH]; intros prev vs g H.
  - reflexivity.
  - assert (Hne : deltas32 prev vs <> []).
    { intro Z. apply (f_equal (@length N)) in Z. rewrite length_deltas32 in Z. cbn [length] in Z. lia. }
    change (S k + g)%nat with (S (k + g)). rewrite blocks_cons by exact Hne.
    cbn [denc32_full denc32_prev]. unfold delta_encode_block32.
    rewrite encode_block32_blk by (rewrite length_deltas32, firstn_length; lia).
    rewrite firstn_deltas32, skipn_deltas32.
    assert (Ep : last (firstn 128 vs) prev = nth 127 vs 0).
    { rewrite last_firstn_nth by lia. apply nth_indep. lia. }
    rewrite Ep.
    rewrite (IH (nth 127 vs 0) (skipn 128 vs) g) by (rewrite skipn_length; lia).
    rewrite skipn_skipn'.
    replace (128 * S k)%nat with (128 + 128 * k)%nat by lia. reflexivity.
Qed.

Lemma delta_encode32_blocks v0 rest :
  delta_encode32 (v0 :: rest) = tagged_put64 v0 ++ blocks (blocks_fuel rest) (deltas32 v0 rest).
Proof.
  unfold delta_encode32. cbv zeta. f_equal.
  set (n := N.of_nat (length rest)) in *.
  unfold blocks_fuel. fold n. replace (S (N.to_nat (n / 128))) with (N.to_nat (n / 128) + 1)%nat by lia.
  rewrite denc32_full_blocks by lia. f_equal.
  set (tailds := deltas32 _ (skipn (128 * N.to_nat (n / 128)) rest)).
  assert (Lt : N.of_nat (length tailds) = n mod 128) by (subst tailds; rewrite length_deltas32, skipn_length; lia).
  destruct (0 <? n mod 128) eqn:E.
  - rewrite blocks_short; [| intro Z; rewrite Z in Lt; cbn [length] in Lt; lia | lia].
    unfold partial_block, blk, block_header, blk_payload. rewrite max_bit_width_eq, Lt.
    replace (n mod 128 <? 128) with true by lia. reflexivity.
  - destruct tailds; [reflexivity|cbn [length] in Lt; lia].
Qed.

(* ---------- DeltaDecode32 on blocks ---------- *)

Lemma ddec32_step f z room prev : ddec32_loop (S f) z room prev =
  if room =? 0 then Some []
  else
    let '(part, bw, bc, z1) := read_header z in
    if part then
      let bc := if room <? bc then u8 room else bc in
      if bw =? 0 then Some (psum32 prev (repeat 0 (N.to_nat bc)))
      else if 32 <? bw then (if bc =? 0 then Some [] else None)
      else Some (psum32 prev (unpack_at bw bc z1))
    else if room <? 128 then Some []
    else
      match delta_decode_block32 z prev with
      | None => None
      | Some (vals, c) =>
          match ddec32_loop f (skipn (N.to_nat c) z) (room - 128) (nth 127%nat vals 0) with
          | None => None
          | Some rest => Some (vals ++ rest)
          end
      end.
Proof. reflexivity. Qed.

Lemma ddec32_zero f z prev : ddec32_loop (S f) z 0 prev = Some [].
Proof. reflexivity. Qed.

Lemma ddec32_partial f dvs rest room prev :
  (1 <= length dvs < 128)%nat -> Forall (fun v => v < 2 ^ 32) dvs -> 0 < room -> room <= N.of_nat (length dvs) ->
  ddec32_loop (S f) (blk dvs ++ rest) room prev = Some (psum32 prev (firstn (N.to_nat room) dvs)).
Proof.
  intros Hl Hv H0 Hr. pose proof (width_le 32 dvs Hv) as W.
  rewrite ddec32_step. destruct (room =? 0) eqn:E0; [lia|].
  unfold blk. rewrite <- app_assoc. rewrite read_header_block by lia.
  set (b := N.of_nat (length dvs)) in *. set (bw := bits_needed (max_val dvs)) in *.
  replace (b <? 128) with true by lia. cbv beta iota zeta.
  assert (Eb : (if room <? b then u8 room else b) = room).
  { destruct (room <? b) eqn:E; [unfold u8; lia|lia]. }
  rewrite Eb.
  pose proof (payload_decode dvs room rest Hr) as P. fold bw in P.
  destruct (bw =? 0) eqn:E; [rewrite P; reflexivity|].
  replace (32 <? bw) with false by lia. rewrite P. reflexivity.
Qed.

Lemma ddec32_full f dvs rest room prev :
  length dvs = 128%nat -> Forall (fun v => v < 2 ^ 32) dvs -> 128 <= room ->
  ddec32_loop (S f) (blk dvs ++ rest) room prev =
  match ddec32_loop f rest (room - 128) (last (psum32 prev dvs) prev) with
  | None => None
  | Some r => Some (psum32 prev dvs ++ r)
  end.
Proof.
  intros L Hv Hr. pose proof (width_le 32 dvs Hv) as W.
  rewrite ddec32_step. destruct (room =? 0) eqn:E0; [lia|].
  unfold delta_decode_block32.
  destruct (decode_block32_blk dvs rest L Hv) as (c & A & B & _). rewrite A, B.
  unfold blk. rewrite <- app_assoc. rewrite read_header_block by lia.
  rewrite L. change (N.of_nat 128 <? 128) with false. cbv beta iota zeta.
  replace (room <? 128) with false by lia.
  assert (El : last (psum32 prev dvs) prev = nth 127 (psum32 prev dvs) 0).
  { rewrite (last_nth _ prev 0).
    - rewrite length_psum32, L. reflexivity.
    - intro Z. apply (f_equal (@length N)) in Z. rewrite length_psum32, L in Z. discriminate. }
  rewrite El. reflexivity.
Qed.

Lemma ddec32_full_stop f dvs rest room prev :
  length dvs = 128%nat -> Forall (fun v => v < 2 ^ 32) dvs -> 0 < room -> room < 128 ->
  ddec32_loop (S f) (blk dvs ++ rest) room prev = Some [].
Proof.
  intros L Hv H0 Hr. pose proof (width_le 32 dvs Hv) as W.
  rewrite ddec32_step. destruct (room =? 0) eqn:E0; [lia|].
  unfold blk. rewrite <- app_assoc. rewrite read_header_block by lia.
  rewrite L. change (N.of_nat 128 <? 128) with false. cbv beta iota zeta.
  replace (room <? 128) with true by lia. reflexivity.
Qed.

Lemma ddec32_blocks f : forall ds tl cap fuel prev,
  (length ds <= 128 * f)%nat -> cap <= N.of_nat (length ds) ->
  Forall (fun v => v < 2 ^ 32) ds ->
  (N.to_nat (cap / 128) + 1 <= fuel)%nat ->
  ddec32_loop fuel (blocks f ds ++ tl) cap prev =
    Some (psum32 prev (firstn (N.to_nat (take32 cap (N.of_nat (length ds)))) ds)).
Proof.
  induction f as [|f IH]; intros ds tl cap fuel prev Hl Hc Hv Hf.
  - destruct ds; [|cbn [length] in Hl; lia]. cbn [length] in Hc.
    replace cap with 0 by lia. destruct fuel; [lia|]. reflexivity.
  - destruct fuel as [|fuel]; [lia|].
    destruct (N.eq_dec cap 0) as [->|Hc0].
    { rewrite ddec32_zero. unfold take32. change (0 / 128) with 0.
      destruct (0 <? N.of_nat (length ds) / 128); reflexivity. }
    assert (Hne : ds <> []) by (intro; subst ds; cbn [length] in Hc; lia).
    set (n := N.of_nat (length ds)) in *.
    destruct (Nat.le_gt_cases (length ds) 128) as [Hs|Hg].
    + rewrite blocks_short by assumption.
      destruct (Nat.eq_dec (length ds) 128) as [L|L].
      * destruct (N.eq_dec cap 128) as [->|Hc128].
        -- rewrite ddec32_full by (assumption || lia). change (128 - 128) with 0.
           destruct fuel; [cbn in Hf; lia|]. rewrite ddec32_zero, app_nil_r.
           unfold take32. replace (128 / 128 <? n / 128) with false by lia.
           change (N.to_nat 128) with 128%nat. rewrite <- L, firstn_all. reflexivity.
        -- rewrite ddec32_full_stop by (assumption || lia).
           unfold take32. replace (cap / 128) with 0 by lia. replace (0 <? n / 128) with true by lia.
           reflexivity.
      * rewrite ddec32_partial; try assumption; try lia.
        unfold take32. replace (cap / 128 <? n / 128) with false by lia. reflexivity.
    + rewrite blocks_long by assumption. rewrite <- app_assoc.
      assert (L : length (firstn 128 ds) = 128%nat) by (rewrite firstn_length; lia).
      destruct (N.lt_ge_cases cap 128) as [Hlt|Hge].
      * rewrite ddec32_full_stop; try assumption; try lia.
        2: apply Forall_firstn'; exact Hv.
        unfold take32. replace (cap / 128) with 0 by lia. replace (0 <? n / 128) with true by lia. reflexivity.
      * rewrite ddec32_full; try assumption.
        2: apply Forall_firstn'; exact Hv.
        rewrite (IH (skipn 128 ds) tl (cap - 128) fuel).
        -- f_equal. rewrite skipn_length.
           replace (N.of_nat (length ds - 128)) with (n - 128) by lia.
           set (i' := take32 (cap - 128) (n - 128)). set (i := take32 cap n).
           assert (Ei : i = 128 + i').
           { subst i i'. unfold take32.
             replace ((cap - 128) / 128) with (cap / 128 - 1) by lia.
             replace ((n - 128) / 128) with (n / 128 - 1) by lia.
             assert (1 <= cap / 128) by lia. assert (1 <= n / 128) by lia.
             destruct (cap / 128 <? n / 128) eqn:E1; destruct (cap / 128 - 1 <? n / 128 - 1) eqn:E2; lia. }
           rewrite (firstn_split 128 (N.to_nat i) ds) by lia.
           rewrite psum32_app. f_equal. f_equal. f_equal. lia.
        -- rewrite skipn_length. lia.
        -- rewrite skipn_length. lia.
        -- apply Forall_skipn'. exact Hv.
        -- lia.
Qed.

(* ---------- C02 / C13 ---------- *)

Theorem delta_decode32_cap v0 rest tl cap :
  Forall (fun v => v < 2 ^ 32) (v0 :: rest) ->
  cap <= N.of_nat (length (v0 :: rest)) ->
  delta_decode32 (delta_encode32 (v0 :: rest) ++ tl) cap =
    Some (firstn (N.to_nat (if cap =? 0 then 0
                            else 1 + (if (cap - 1) / 128 <? N.of_nat (length rest) / 128
                                      then 128 * ((cap - 1) / 128) else cap - 1)))
                 (v0 :: rest)).
Proof.
  intros Hv Hc. inversion Hv as [|? ? Hv0 Hr]; subst.
  rewrite delta_encode32_blocks. rewrite <- app_assoc. unfold delta_decode32.
  destruct (cap =? 0) eqn:E0; [reflexivity|].
  cbv zeta. change (2 ^ 32) with 4294967296 in Hv0.
  rewrite tagged_get64_put by lia. cbn [fst snd]. rewrite skipn_tagged.
  cbn [length] in Hc.
  assert (Eu : u32 v0 = v0) by (unfold u32; lia). rewrite Eu.
  rewrite ddec32_blocks.
  - rewrite length_deltas32. fold (take32 (cap - 1) (N.of_nat (length rest))).
    set (i := take32 (cap - 1) (N.of_nat (length rest))).
    rewrite firstn_deltas32, psum32_deltas32; [|exact Hv0|apply Forall_firstn'; exact Hr].
    replace (N.to_nat (1 + i)) with (S (N.to_nat i)) by lia. reflexivity.
  - rewrite length_deltas32. apply blocks_fuel_ok.
  - rewrite length_deltas32. lia.
  - apply deltas32_lt.
  - lia.
Qed.

Theorem delta_decode32_roundtrip vs tl :
  vs <> [] -> Forall (fun v => v < 2 ^ 32) vs ->
  delta_decode32 (delta_encode32 vs ++ tl) (N.of_nat (length vs)) = Some vs.
Proof.
  intros Hne Hv. destruct vs as [|v0 rest]; [congruence|].
  rewrite delta_decode32_cap by (assumption || lia).
  cbn [length]. rewrite Nat2N.inj_succ.
  set (n := N.of_nat (length rest)).
  replace (N.succ n =? 0) with false by lia.
  replace (N.succ n - 1) with n by lia.
  replace (n / 128 <? n / 128) with false by lia.
  replace (N.to_nat (1 + n)) with (length (v0 :: rest)) by (cbn [length]; lia).
  rewrite firstn_all. reflexivity.
Qed.

Corollary delta_decode32_reads_inside vs z :
  vs <> [] -> Forall (fun v => v < 2 ^ 32) vs ->
  firstn (length (delta_encode32 vs)) z = delta_encode32 vs ->
  delta_decode32 z (N.of_nat (length vs)) = Some vs.
Proof.
  intros Hne Hv Hz. rewrite <- (firstn_skipn (length (delta_encode32 vs)) z), Hz.
  apply delta_decode32_roundtrip; assumption.
Qed.

Lemma delta_decode_block32_length z prev vals c :
  delta_decode_block32 z prev = Some (vals, c) -> length vals = 128%nat.
Proof.
  unfold delta_decode_block32. destruct (decode_block32 z) as [[ds c']|] eqn:D; [|discriminate].
  intro H. injection H as <- _. rewrite length_psum32. eapply decode_block32_length. exact D.
Qed.

Lemma ddec32_loop_length fuel : forall z room prev out,
  ddec32_loop fuel z room prev = Some out -> N.of_nat (length out) <= room.
Proof.
  induction fuel as [|f IH]; intros z room prev out H; [discriminate|].
  rewrite ddec32_step in H. destruct (room =? 0) eqn:E0.
  - injection H as <-. cbn [length]. lia.
  - destruct (read_header z) as [[[part bw] bc] z1]. cbv beta iota zeta in H.
    destruct part.
    + set (bc' := if room <? bc then u8 room else bc) in *.
      assert (Hb : bc' <= room) by (subst bc'; unfold u8; destruct (room <? bc) eqn:E; lia).
      destruct (bw =? 0).
      * injection H as <-. rewrite length_psum32, repeat_length. lia.
      * destruct (32 <? bw).
        -- destruct (bc' =? 0); [|discriminate]. injection H as <-. cbn [length]. lia.
        -- injection H as <-. rewrite length_psum32, length_unpack_at. lia.
    + destruct (room <? 128) eqn:E1.
      * injection H as <-. cbn [length]. lia.
      * destruct (delta_decode_block32 z prev) as [[vals c]|] eqn:D; [|discriminate].
        destruct (ddec32_loop f _ (room - 128) _) as [r|] eqn:R; [|discriminate].
        injection H as <-. apply IH in R. apply delta_decode_block32_length in D.
        rewrite app_length, D. lia.
Qed.

Theorem delta_decode32_within_cap z cap out : delta_decode32 z cap = Some out -> N.of_nat (length out) <= cap.
Proof.
  unfold delta_decode32. destruct (cap =? 0) eqn:E0.
  - intro H. injection H as <-. cbn [length]. lia.
  - cbv zeta. destruct (ddec32_loop _ _ (cap - 1) _) as [r|] eqn:R; [|discriminate].
    intro H. injection H as <-. apply ddec32_loop_length in R. cbn [length]. lia.
Qed.

(* ---------- C03 ---------- *)

Theorem delta_encode32_bound vs : Forall (fun v => v < 2 ^ 32) vs ->
  N.of_nat (length (delta_encode32 vs)) <= max_bytes (N.of_nat (length vs)).
Proof.
  intro Hv. destruct vs as [|v0 rest]; [vm_compute; discriminate|].
  rewrite delta_encode32_blocks. rewrite app_length, Nat2N.inj_add.
  pose proof (length_tagged_le v0).
  pose proof (length_blocks_le (blocks_fuel rest) (deltas32 v0 rest) (lt32_lt64 _ (deltas32_lt v0 rest))) as B.
  rewrite length_deltas32 in B. unfold blocks_bound in B. unfold max_bytes. cbv zeta.
  cbn [length]. rewrite Nat2N.inj_succ.
  set (n := N.of_nat (length rest)) in *. clearbody n.
  set (L := N.of_nat (length (blocks (blocks_fuel rest) (deltas32 v0 rest)))) in *. clearbody L.
  destruct (0 <? n mod 128) eqn:E1; destruct (0 <? N.succ n mod 128) eqn:E2; lia.
Qed.

(* ---------- C16 ---------- *)

Lemma denc32_full_maxbw_eq k : forall prev vs m, (128 * k <= length vs)%nat ->
  denc32_full_maxbw k prev vs m =
  N.max m (bits_needed (max_val (deltas32 prev (firstn (128 * k) vs)))).
Proof.
  induction k as [|k IH]; intros prev vs m Hl.
  - replace (128 * 0)%nat with 0%nat by lia. cbn [denc32_full_maxbw firstn deltas32].
    rewrite max_val_nil. unfold bits_needed. cbn. lia.
  - cbn [denc32_full_maxbw]. unfold delta_encode_block32.
    rewrite encode_block32_hdr by apply deltas32_lt.
    pose proof (width_le 32 _ (deltas32_lt prev (firstn 128 vs))) as W.
    rewrite land127 by lia.
    rewrite IH by (rewrite skipn_length; lia).
    rewrite (firstn_split 128 (128 * S k) vs) by lia.
    rewrite deltas32_app, max_val_app, bits_needed_max.
    replace (128 * S k - 128)%nat with (128 * k)%nat by lia.
    assert (Ep : last (firstn 128 vs) prev = nth 127 vs 0).
    { rewrite last_firstn_nth by lia. apply nth_indep. lia. }
    rewrite Ep.
    destruct (m <? bits_needed (max_val (deltas32 prev (firstn 128 vs)))) eqn:E; lia.
Qed.

Lemma denc32_prev_eq k : forall prev vs, (128 * k <= length vs)%nat ->
  denc32_prev k prev vs = last (firstn (128 * k) vs) prev.
Proof.
  induction k as [|k IH]; intros prev vs Hl.
  - replace (128 * 0)%nat with 0%nat by lia. reflexivity.
  - cbn [denc32_prev]. rewrite IH by (rewrite skipn_length; lia).
    rewrite (firstn_split 128 (128 * S k) vs) by lia.
    replace (128 * S k - 128)%nat with (128 * k)%nat by lia.
    assert (Ep : nth 127 vs 0 = last (firstn 128 vs) prev).
    { rewrite last_firstn_nth by lia. apply nth_indep. lia. }
    rewrite Ep.
    destruct (firstn (128 * k) (skipn 128 vs)) as [|x t] eqn:F.
    + rewrite app_nil_r. reflexivity.
    + symmetry. apply last_app_cons.
Qed.

Theorem delta_encode32_meta_ok v0 rest :
  let vs := v0 :: rest in
  let m := delta_encode32_meta vs in
  let n := N.of_nat (length rest) in
  m_count m = N.of_nat (length vs) /\
  m_encodedBytes m = N.of_nat (length (delta_encode32 vs)) /\
  m_blockCount m = (n + 127) / 128 /\
  (0 < n -> m_lastBlockSize m = n - 128 * ((n + 127) / 128 - 1)) /\
  m_maxBitWidth m = bits_needed (max_val (deltas32 v0 rest)).
Proof.
  cbv zeta. unfold delta_encode32_meta. cbv zeta.
  cbn [m_count m_encodedBytes m_blockCount m_lastBlockSize m_maxBitWidth]. rewrite nlen_eq.
  set (n := N.of_nat (length rest)) in *.
  repeat split.
  - destruct (0 <? n mod 128) eqn:F; lia.
  - intro Hn. destruct (0 <? n mod 128) eqn:F; lia.
  - rewrite denc32_full_maxbw_eq by lia. rewrite denc32_prev_eq by lia.
    set (k := (128 * N.to_nat (n / 128))%nat).
    assert (Em : max_val (deltas32 v0 rest) =
                 N.max (max_val (deltas32 v0 (firstn k rest)))
                       (max_val (deltas32 (last (firstn k rest) v0) (skipn k rest)))).
    { rewrite <- max_val_app, <- deltas32_app, firstn_skipn. reflexivity. }
    rewrite Em, bits_needed_max.
    destruct (0 <? n mod 128) eqn:F.
    + rewrite max_bit_width_eq.
      destruct (_ <? bits_needed (max_val (deltas32 (last (firstn k rest) v0) (skipn k rest)))) eqn:G; lia.
    + assert (Z : skipn k rest = []).
      { apply length_zero_iff_nil. rewrite skipn_length. subst k. lia. }
      rewrite Z. cbn [deltas32]. rewrite max_val_nil. unfold bits_needed. cbn. lia.
Qed.
