(* Properties_C05_src.v — property C05 stated about src_varintTaggedPut64, the
   Gallina rendering that gen/c2coq.py regenerates from the CURRENT
   src/varintTagged.c on every run (coq/gen/Src_tagged.v; meaning of the c_*
   operations: CSem.v).  A buffer is a byte list, the function returns the C
   return value w and the final buffer; the encoding is its first w bytes. *)
Require Import VV.Base VV.CSem VV.TaggedSrcPropsPut.
Require Import VVgen.Src_tagged.
Local Open Scope Z_scope.

(* memcmp order of two encodings = numeric order, all pairs of 64-bit values,
   whatever the destination buffers held before *)
Theorem C05_src_tagged_order : forall a b bufa bufb,
  0 <= a < 18446744073709551616 -> 0 <= b < 18446744073709551616 ->
  (9 <= length bufa)%nat -> (9 <= length bufb)%nat ->
  exists wa oa wb ob,
    src_varintTaggedPut64 bufa a = COk (wa, oa) /\ src_varintTaggedPut64 bufb b = COk (wb, ob) /\
    lex (firstn (Z.to_nat wa) oa) (firstn (Z.to_nat wb) ob) = (a ?= b).
Proof. exact src_tagged_order. Qed.
Print Assumptions C05_src_tagged_order.

(* equal bytes only for equal values *)
Theorem C05_src_tagged_injective : forall a b bufa bufb wa oa wb ob,
  0 <= a < 18446744073709551616 -> 0 <= b < 18446744073709551616 ->
  (9 <= length bufa)%nat -> (9 <= length bufb)%nat ->
  src_varintTaggedPut64 bufa a = COk (wa, oa) -> src_varintTaggedPut64 bufb b = COk (wb, ob) ->
  firstn (Z.to_nat wa) oa = firstn (Z.to_nat wb) ob -> a = b.
Proof. exact src_tagged_injective. Qed.
Print Assumptions C05_src_tagged_injective.

(* the code is prefix-free *)
Theorem C05_src_tagged_prefix_free : forall a b bufa bufb wa oa wb ob,
  0 <= a < 18446744073709551616 -> 0 <= b < 18446744073709551616 ->
  (9 <= length bufa)%nat -> (9 <= length bufb)%nat ->
  src_varintTaggedPut64 bufa a = COk (wa, oa) -> src_varintTaggedPut64 bufb b = COk (wb, ob) ->
  (exists t, firstn (Z.to_nat wb) ob = firstn (Z.to_nat wa) oa ++ t) -> a = b.
Proof. exact src_tagged_prefix_free. Qed.
Print Assumptions C05_src_tagged_prefix_free.

(* non-vacuity: the regenerated function run on concrete inputs across a length boundary *)
Example C05_src_example :
  src_varintTaggedPut64 [0; 0; 0; 0; 0; 0; 0; 0; 0]%N 2287 = COk (2, [248; 255; 0; 0; 0; 0; 0; 0; 0]%N) /\
  src_varintTaggedPut64 [7; 7; 7; 7; 7; 7; 7; 7; 7]%N 2288 = COk (3, [249; 0; 0; 7; 7; 7; 7; 7; 7]%N) /\
  lex [248; 255]%N [249; 0; 0]%N = Lt.
Proof. vm_compute. repeat split; reflexivity. Qed.
