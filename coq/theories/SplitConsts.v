(* SplitConsts.v — the constants used by the model (Split.v) are the values
   the current headers give (coq/gen/Consts.v is regenerated from
   /repo/src on every run), and the spec tables' thresholds follow from them. *)
Require Import VV.Base VV.Split VV.SplitSpec VVgen.Consts VV.SplitLemmas VV.SplitProofs VV.Split16Proofs.
From Coq Require Import Lia.
Local Open Scope N_scope.

Lemma split_consts_ok :
  VARINT_SPLIT_MASK = SPLIT_MASK /\ VARINT_SPLIT_6_MASK = SPLIT_6_MASK /\
  VARINT_SPLIT_MAX_6 = SPLIT_MAX_6 /\ VARINT_SPLIT_MAX_14 = SPLIT_MAX_14 /\
  VARINT_SPLIT_6 = SPLIT_6 /\ VARINT_SPLIT_14 = SPLIT_14 /\ VARINT_SPLIT_VAR = SPLIT_VAR /\
  VARINT_SPLIT_FULL_16_MASK = SPLIT16_MASK /\ VARINT_SPLIT_FULL_16_6_MASK = SPLIT16_6_MASK /\
  VARINT_SPLIT_FULL_16_MAX_14 = SPLIT16_MAX_14 /\ VARINT_SPLIT_FULL_16_MAX_22 = SPLIT16_MAX_22 /\
  VARINT_SPLIT_FULL_16_MAX_30 = SPLIT16_MAX_30 /\
  VARINT_SPLIT_FULL_16_14 = SPLIT16_14 /\ VARINT_SPLIT_FULL_16_22 = SPLIT16_22 /\
  VARINT_SPLIT_FULL_16_30 = SPLIT16_30 /\ VARINT_SPLIT_FULL_16_VAR = SPLIT16_VAR.
Proof. repeat split; reflexivity. Qed.

(* documented per-length maxima, in terms of the header constants *)
Lemma split_max_consts :
  split_max 1 = VARINT_SPLIT_MAX_6 /\
  split_max 2 = VARINT_SPLIT_MAX_14 + 255 /\
  split_max 3 = VARINT_SPLIT_MAX_14 + 65535 /\
  split_max 4 = VARINT_SPLIT_MAX_14 + 16777215 /\
  split16_max 2 = VARINT_SPLIT_FULL_16_MAX_14 /\
  split16_max 3 = VARINT_SPLIT_FULL_16_MAX_22 /\
  split16_max 4 = VARINT_SPLIT_FULL_16_MAX_30 /\
  split16_max 5 = VARINT_SPLIT_FULL_16_MAX_30 + 4294967295.
Proof. vm_compute. repeat split; reflexivity. Qed.

(* frame: storing the encoding changes nothing outside its len bytes *)
Lemma split_put_frame x dst off bs i : x < 18446744073709551616 ->
  split_put x = Some bs -> (off + length bs <= length dst)%nat ->
  (i < off \/ off + N.to_nat (split_length x) <= i)%nat ->
  nth i (store dst off bs) 0 = nth i dst 0.
Proof.
  intros Hx P Hfit Hi. destruct (split_roundtrip_at x Hx) as (bs' & P' & L & _).
  rewrite P in P'. apply some_inj in P'. subst bs'.
  apply store_frame; [exact Hfit|]. lia.
Qed.

Lemma split16_put_frame x dst off bs i : x < 18446744073709551616 ->
  split16_put x = Some bs -> (off + length bs <= length dst)%nat ->
  (i < off \/ off + N.to_nat (split16_length x) <= i)%nat ->
  nth i (store dst off bs) 0 = nth i dst 0.
Proof.
  intros Hx P Hfit Hi. destruct (split16_roundtrip_at x Hx) as (bs' & P' & L & _).
  rewrite P in P'. apply some_inj in P'. subst bs'.
  apply store_frame; [exact Hfit|]. lia.
Qed.
